#![no_main]
use libfuzzer_sys::fuzz_target;

fuzz_target!(|data: &[u8]| {
    vh::fuzzglue::fz_encode(data);
});
