//! Glue between libFuzzer targets (harness/fuzz) and the property oracles of this harness.
//!
//! Every target decodes the fuzzer's bytes into one of the harness' ordinary case types, evaluates
//! the ordinary check function of one property (selected by `VH_FUZZ_PROP`), and — when the oracle
//! reports a violation that is not a listed known finding — writes an ordinary replay file, prints
//! the `VIOLATION property=.. replay=..` line and aborts, so that libFuzzer stops and keeps the
//! input. Panics inside the library under test are caught by the check functions themselves (the
//! aborting panic hook libfuzzer-sys installs is replaced by the harness' recording hook).

use crate::core::{Known, Outcome, VERIF_ROOT};
use crate::enc::SrcKind;
use crate::gen::{ChanSpec, CfgSpec, InputSpec, WIDTHS};
use crate::props::common::{Entry, StreamCase};
use crate::props::{c01, c02, c09, c13, c15, c16, c18};
use crate::util::{fnv_str, Cursor};
use serde::Serialize;
use std::sync::OnceLock;

fn prop() -> &'static str {
    static P: OnceLock<String> = OnceLock::new();
    P.get_or_init(|| std::env::var("VH_FUZZ_PROP").unwrap_or_default()).as_str()
}

fn known() -> &'static Known {
    static K: OnceLock<Known> = OnceLock::new();
    K.get_or_init(Known::load)
}

fn init() {
    static I: std::sync::Once = std::sync::Once::new();
    I.call_once(|| {
        // replace libfuzzer-sys' aborting hook: panics of the library are *data* for the oracles
        let _ = std::panic::take_hook();
        crate::util::install_panic_hook();
    });
}

/// Reports the fresh violations of `out` (if any) and aborts.
fn report<C: Serialize>(prop: &str, kind: &str, case: &C, out: &Outcome) {
    let fresh: Vec<_> = out.viols.iter().filter(|v| known().matches(prop, &v.sig).is_none()).collect();
    let Some(v) = fresh.first() else { return };
    let dir = format!("{VERIF_ROOT}/replays/{prop}");
    let _ = std::fs::create_dir_all(&dir);
    let path = format!("{dir}/found-fuzz-{:016x}.json", fnv_str(&v.sig));
    let body = serde_json::json!({ "property": prop, "kind": kind, "sig": v.sig, "detail": v.detail, "seed": 0, "case": case });
    let _ = std::fs::write(&path, serde_json::to_string_pretty(&body).unwrap_or_default());
    println!("VIOLATION property={prop} replay={path}");
    println!("  signature: {}", v.sig);
    println!("  detail: {}", v.detail.chars().take(600).collect::<String>());
    std::process::abort();
}

/// bytes -> (configuration, explicit samples, entry point). Header: 24 bytes; the rest are samples.
pub fn decode_stream_case(data: &[u8]) -> StreamCase {
    let mut c = Cursor { d: data, i: 0 };
    let flags = c.u16();
    let block = match c.u8() % 8 {
        0 => 32,
        1 => 64,
        2 => 192,
        3 => 256,
        4 => 33 + (c.u8() as usize),
        5 => 576,
        6 => 255 + (c.u8() as usize % 4),
        _ => 32 + c.range(0, 1000),
    };
    let cfg = CfgSpec {
        block_size: block,
        multithread: false,
        workers: None,
        ls: flags & 1 != 0,
        rs: flags & 2 != 0,
        ms: flags & 4 != 0,
        use_constant: flags & 8 != 0,
        use_fixed: flags & 16 != 0,
        use_lpc: flags & 32 != 0,
        fixed_max_order: c.range(0, 4),
        order_sel: if flags & 64 != 0 { None } else { Some(c.range(1, 64)) },
        lpc_order: c.range(1, 24),
        quant_precision: c.range(1, 15),
        use_direct_mse: false,
        mae_steps: 0,
        window: if flags & 128 != 0 { None } else { Some((c.u16() as f32 / 65535.0).to_bits()) },
        max_parameter: if flags & 256 != 0 { 14 } else { c.range(0, 14) },
        cfg_block: if flags & 0x2000 != 0 { Some(4096) } else { None },
    };
    let channels = if flags & 512 != 0 { 2 } else { c.range(1, 8) };
    let bps = WIDTHS[c.range(0, 4)];
    let rate = match c.u8() % 4 {
        0 => 44100,
        1 => 1 + c.u16() as usize,
        2 => 1000 * c.range(1, 96),
        _ => c.range(1, 96000),
    };
    let entry = if flags & 1024 != 0 { Entry::Frames } else { Entry::Single };
    let src = match (flags >> 11) & 3 {
        0 => SrcKind::Mem,
        1 => SrcKind::Int,
        _ => SrcKind::Bytes,
    };
    // samples: (bps+7)/8 bytes each, sign-extended; a run-length escape keeps long inputs cheap
    let nb = (bps + 7) / 8;
    let rest = c.rest();
    let max_total = 6000usize;
    let mut samples: Vec<i32> = Vec::with_capacity(rest.len() / nb + 1);
    let lo = -(1i64 << (bps - 1));
    let hi = (1i64 << (bps - 1)) - 1;
    let mut i = 0;
    while i + nb <= rest.len() && samples.len() < max_total {
        let mut v: i64 = 0;
        for k in 0..nb {
            v |= (rest[i + k] as i64) << (8 * k);
        }
        i += nb;
        let shift = 64 - 8 * nb as u32;
        let v = (v << shift) >> shift;
        let v = (v >> (8 * nb - bps)).clamp(lo, hi) as i32;
        samples.push(v);
        // escape: a sample equal to the minimum is followed by a repeat count for the previous pair
        if v as i64 == lo && i < rest.len() {
            let rep = rest[i] as usize;
            i += 1;
            let n = samples.len();
            if n >= 3 {
                for r in 0..rep.min(max_total - samples.len().min(max_total)) {
                    let x = samples[n - 3 + (r % 2)];
                    samples.push(x);
                }
            }
        }
    }
    let len = samples.len() / channels;
    samples.truncate(len * channels);
    let inp = InputSpec { channels, bps, rate, len, chans: vec![ChanSpec { segs: vec![] }; channels], rel: 0, seed: 0, explicit: Some(samples) };
    StreamCase { cfg, inp, entry, src }
}

/// Target `fz_encode`: one of the stream-level oracles (C01 default, C02, C09, C13, C15).
pub fn fz_encode(data: &[u8]) {
    init();
    if data.len() < 24 {
        return;
    }
    let case = decode_stream_case(data);
    match prop() {
        "C02" => report("C02", "stream", &case, &c02::check_stream(&case)),
        "C09" => report("C09", "heavy", &case, &c09::check(&case)),
        "C13" => report("C13", "general", &case, &c13::check(&case)),
        "C15" => {
            let c = c15::Case { base: case, meta: vec![], asm: None };
            report("C15", "stream", &c, &c15::check(&c));
        }
        _ => report("C01", "stream", &case, &c01::check(&case)),
    }
}

/// Target `fz_parse` (C16): first byte selects raw bytes or a structure-aware mutation of an emitted
/// stream with the checksums recomputed.
pub fn fz_parse(data: &[u8]) {
    init();
    if data.is_empty() {
        return;
    }
    let case = if data[0] & 1 == 0 {
        c16::RawCase { base: None, hex: crate::util::hex(&data[1..]), edits: vec![], fix_crc: false }
    } else {
        let mut c = Cursor { d: data, i: 1 };
        let s = (c.u8() % 24) as u64;
        let fix_crc = data[0] & 2 != 0;
        let mut edits = vec![];
        while c.i + 3 <= data.len() && edits.len() < 16 {
            let pos = c.u16();
            let x = c.u8();
            edits.push((pos, x));
        }
        c16::RawCase { base: Some(s), hex: String::new(), edits, fix_crc }
    };
    report("C16", "raw", &case, &c16::check_raw(&case));
}

/// Target `fz_ctor` (C18): bytes -> constructor arguments.
pub fn fz_ctor(data: &[u8]) {
    init();
    if data.len() < 4 {
        return;
    }
    let case = c18::case_from_bytes(data);
    report("C18", "fuzz", &case, &c18::check(&case));
}

/// Writes a starting corpus for `target` into `dir` (a few hundred small files derived from `seed`).
pub fn write_corpus(target: &str, dir: &str, seed: u64) -> std::io::Result<usize> {
    std::fs::create_dir_all(dir)?;
    let mut rng = crate::util::Sm64::new(seed ^ fnv_str(target));
    let mut n = 0;
    let mut put = |bytes: &[u8]| -> std::io::Result<()> {
        std::fs::write(format!("{dir}/seed-{n:04}"), bytes)?;
        n += 1;
        Ok(())
    };
    match target {
        "fz_parse" => {
            for s in 0..24u64 {
                if let Some(b) = c16::base_of(&c16::small_stream(s)) {
                    let mut v = vec![0u8];
                    v.extend_from_slice(&b.bytes);
                    put(&v)?;
                    // structure-aware seeds: a few edits inside the frames, CRC fixed and not fixed
                    for k in 0..6 {
                        let mut e = vec![if k % 2 == 0 { 3u8 } else { 1u8 }, s as u8];
                        for _ in 0..(1 + k % 3) {
                            e.extend_from_slice(&(rng.below(b.bytes.len() as u64) as u16).to_be_bytes());
                            e.push(rng.next() as u8);
                        }
                        put(&e)?;
                    }
                }
            }
        }
        "fz_ctor" => {
            for _ in 0..300 {
                let len = 8 + rng.below(120) as usize;
                let v: Vec<u8> = (0..len).map(|_| rng.next() as u8).collect();
                put(&v)?;
            }
        }
        _ => {
            for k in 0..300u64 {
                let len = 24 + [40usize, 200, 900, 3000, 9000][(k % 5) as usize] + rng.below(64) as usize;
                let mode = rng.below(4);
                let mut v: Vec<u8> = (0..len).map(|_| rng.next() as u8).collect();
                if mode >= 2 {
                    // smooth content: small increments (LPC-friendly)
                    let mut acc = 0u8;
                    for x in v.iter_mut().skip(24) {
                        acc = acc.wrapping_add((rng.below(5) as u8).wrapping_sub(2));
                        *x = if mode == 2 { acc } else { acc & 0xF0 };
                    }
                }
                put(&v)?;
            }
        }
    }
    Ok(n)
}
