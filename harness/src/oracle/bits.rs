//! Ideal MSB-first bit string used as the model for the sinks, and a minimal
//! user sink that implements only the required `BitSink` methods.

use flacenc::bitsink::BitSink;
use flacenc::bitsink::Bits;

#[derive(Clone, Debug, Default, PartialEq, Eq)]
pub struct BitModel {
    pub bits: Vec<bool>,
}

impl BitModel {
    pub fn new() -> Self {
        Self::default()
    }
    pub fn push_msb_first(&mut self, v: u64, n: usize) {
        for i in (0..n).rev() {
            self.bits.push((v >> i) & 1 == 1);
        }
    }
    pub fn zeros(&mut self, n: usize) {
        self.bits.extend(std::iter::repeat(false).take(n));
    }
    pub fn align(&mut self) -> usize {
        let pad = (8 - self.bits.len() % 8) % 8;
        self.zeros(pad);
        pad
    }
    pub fn len(&self) -> usize {
        self.bits.len()
    }
    pub fn to_bytes(&self) -> Vec<u8> {
        let mut out = vec![0u8; (self.bits.len() + 7) / 8];
        for (i, b) in self.bits.iter().enumerate() {
            if *b {
                out[i / 8] |= 0x80 >> (i % 8);
            }
        }
        out
    }
    pub fn from_bytes(b: &[u8], nbits: usize) -> Self {
        let mut m = Self::new();
        for i in 0..nbits {
            m.bits.push((b[i / 8] >> (7 - i % 8)) & 1 == 1);
        }
        m
    }
    pub fn bitstring(&self) -> String {
        self.bits.iter().map(|b| if *b { '1' } else { '0' }).collect()
    }
}

/// User-defined sink implementing only the required methods; everything
/// else comes from the trait's defaults.
#[derive(Clone, Debug, Default)]
pub struct MinimalSink {
    pub model: BitModel,
    /// fail (return Err) on the k-th operation if set
    pub fail_at: Option<usize>,
    pub ops: usize,
}

#[derive(Debug, Clone, PartialEq, Eq)]
pub struct SinkFail(pub usize);

impl std::fmt::Display for SinkFail {
    fn fmt(&self, f: &mut std::fmt::Formatter<'_>) -> std::fmt::Result {
        write!(f, "sink failed at op {}", self.0)
    }
}
impl std::error::Error for SinkFail {}

impl MinimalSink {
    pub fn new() -> Self {
        Self::default()
    }
    pub fn failing_at(k: usize) -> Self {
        Self { fail_at: Some(k), ..Self::default() }
    }
    fn op(&mut self) -> Result<(), SinkFail> {
        let k = self.ops;
        self.ops += 1;
        if self.fail_at == Some(k) {
            return Err(SinkFail(k));
        }
        Ok(())
    }
}

impl BitSink for MinimalSink {
    type Error = SinkFail;

    fn align_to_byte(&mut self) -> Result<usize, Self::Error> {
        self.op()?;
        Ok(self.model.align())
    }

    fn write_msbs<T: Bits>(&mut self, val: T, n: usize) -> Result<(), Self::Error> {
        self.op()?;
        let v: u64 = val.into();
        let w = std::mem::size_of::<T>() * 8;
        assert!(n <= w, "write_msbs: n={n} exceeds the operand width {w}");
        if n > 0 {
            self.model.push_msb_first(v >> (w - n), n);
        }
        Ok(())
    }

    fn write_lsbs<T: Bits>(&mut self, val: T, n: usize) -> Result<(), Self::Error> {
        self.op()?;
        let v: u64 = val.into();
        let w = std::mem::size_of::<T>() * 8;
        assert!(n <= w, "write_lsbs: n={n} exceeds the operand width {w}");
        self.model.push_msb_first(v, n);
        Ok(())
    }

    fn write<T: Bits>(&mut self, val: T) -> Result<(), Self::Error> {
        self.op()?;
        let v: u64 = val.into();
        self.model.push_msb_first(v, std::mem::size_of::<T>() * 8);
        Ok(())
    }
}

/// Counts bits only (O(1) `write_zeros`), so that bit counts above 2^32 can be compared without
/// allocating the bits.
#[derive(Clone, Debug, Default)]
pub struct CountSink {
    pub bits: u128,
}

impl BitSink for CountSink {
    type Error = SinkFail;

    fn align_to_byte(&mut self) -> Result<usize, Self::Error> {
        let pad = ((8 - self.bits % 8) % 8) as usize;
        self.bits += pad as u128;
        Ok(pad)
    }
    fn write_msbs<T: Bits>(&mut self, _val: T, n: usize) -> Result<(), Self::Error> {
        self.bits += n as u128;
        Ok(())
    }
    fn write_lsbs<T: Bits>(&mut self, _val: T, n: usize) -> Result<(), Self::Error> {
        self.bits += n as u128;
        Ok(())
    }
    fn write<T: Bits>(&mut self, _val: T) -> Result<(), Self::Error> {
        self.bits += (std::mem::size_of::<T>() * 8) as u128;
        Ok(())
    }
    fn write_zeros(&mut self, n: usize) -> Result<(), Self::Error> {
        self.bits += n as u128;
        Ok(())
    }
}
