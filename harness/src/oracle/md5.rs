//! Independent MD5 (RFC 1321) and the harness' own serialisation of PCM input.

const S: [u32; 64] = [
    7, 12, 17, 22, 7, 12, 17, 22, 7, 12, 17, 22, 7, 12, 17, 22, 5, 9, 14, 20, 5, 9, 14, 20, 5, 9, 14, 20, 5, 9, 14, 20, 4, 11, 16, 23, 4, 11, 16, 23, 4, 11, 16, 23, 4, 11, 16, 23, 6, 10, 15, 21, 6, 10,
    15, 21, 6, 10, 15, 21, 6, 10, 15, 21,
];

pub fn md5(data: &[u8]) -> [u8; 16] {
    let k: Vec<u32> = (0..64).map(|i| ((i as f64 + 1.0).sin().abs() * 4294967296.0) as u32).collect();
    let (mut a0, mut b0, mut c0, mut d0) = (0x67452301u32, 0xefcdab89u32, 0x98badcfeu32, 0x10325476u32);
    let mut msg = data.to_vec();
    let bitlen = (data.len() as u64).wrapping_mul(8);
    msg.push(0x80);
    while msg.len() % 64 != 56 {
        msg.push(0);
    }
    msg.extend_from_slice(&bitlen.to_le_bytes());
    for chunk in msg.chunks(64) {
        let m: Vec<u32> = (0..16).map(|i| u32::from_le_bytes([chunk[4 * i], chunk[4 * i + 1], chunk[4 * i + 2], chunk[4 * i + 3]])).collect();
        let (mut a, mut b, mut c, mut d) = (a0, b0, c0, d0);
        for i in 0..64 {
            let (mut f, g);
            if i < 16 {
                f = (b & c) | (!b & d);
                g = i;
            } else if i < 32 {
                f = (d & b) | (!d & c);
                g = (5 * i + 1) % 16;
            } else if i < 48 {
                f = b ^ c ^ d;
                g = (3 * i + 5) % 16;
            } else {
                f = c ^ (b | !d);
                g = (7 * i) % 16;
            }
            f = f.wrapping_add(a).wrapping_add(k[i]).wrapping_add(m[g]);
            a = d;
            d = c;
            c = b;
            b = b.wrapping_add(f.rotate_left(S[i]));
        }
        a0 = a0.wrapping_add(a);
        b0 = b0.wrapping_add(b);
        c0 = c0.wrapping_add(c);
        d0 = d0.wrapping_add(d);
    }
    let mut out = [0u8; 16];
    out[0..4].copy_from_slice(&a0.to_le_bytes());
    out[4..8].copy_from_slice(&b0.to_le_bytes());
    out[8..12].copy_from_slice(&c0.to_le_bytes());
    out[12..16].copy_from_slice(&d0.to_le_bytes());
    out
}

/// Channel-interleaved little-endian signed integers of the byte-rounded width.
pub fn pcm_bytes(interleaved: &[i32], bps: usize) -> Vec<u8> {
    let nb = (bps + 7) / 8;
    let mut out = Vec::with_capacity(interleaved.len() * nb);
    for &x in interleaved {
        let b = x.to_le_bytes();
        out.extend_from_slice(&b[..nb]);
    }
    out
}

pub fn pcm_md5(interleaved: &[i32], bps: usize) -> [u8; 16] {
    md5(&pcm_bytes(interleaved, bps))
}

/// Self test against the RFC 1321 vectors and the md-5 crate.
pub fn self_test() {
    use md5::Digest;
    let vecs: [(&str, &str); 4] = [
        ("", "d41d8cd98f00b204e9800998ecf8427e"),
        ("a", "0cc175b9c0f1b6a831c399e269772661"),
        ("message digest", "f96b697d7cb7938d525a2f31aaf161d0"),
        ("12345678901234567890123456789012345678901234567890123456789012345678901234567890", "57edf4a22be3c955ac49da2e2107b67a"),
    ];
    for (m, h) in vecs {
        assert_eq!(crate::util::hex(&md5(m.as_bytes())), h, "md5 self test");
    }
    let data: Vec<u8> = (0..1000u32).map(|i| (i * 7 + 3) as u8).collect();
    for n in [0usize, 55, 56, 57, 63, 64, 65, 119, 120, 999] {
        let r: [u8; 16] = md5::Md5::digest(&data[..n]).into();
        assert_eq!(md5(&data[..n]), r);
    }
}
