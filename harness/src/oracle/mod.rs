pub mod bits;
pub mod md5;
pub mod refdec;
pub mod rice;
pub mod forenc;
