//! Brute force over the encoder's documented Rice search space.

/// Zig-zag folding of a residual.
#[inline]
pub fn zigzag(e: i64) -> u64 {
    if e >= 0 {
        (e as u64) << 1
    } else {
        ((-(e + 1)) as u64) * 2 + 1
    }
}

/// Finest partition order the encoder may use for `block`/`pred_order`.
pub fn finest_order(block: usize, pred_order: usize) -> Option<usize> {
    let min_part = std::cmp::max(64, pred_order);
    let max_splits = block / min_part;
    if max_splits == 0 {
        return None;
    }
    let by_size = (usize::BITS - 1 - max_splits.leading_zeros()) as usize;
    Some(by_size.min(block.trailing_zeros() as usize).min(15))
}

#[derive(Debug, Clone)]
pub struct Opt {
    /// total bits of the residual section (2 method + 4 order + per partition 4 + codes)
    pub bits: u64,
    pub order: u32,
    /// number of candidate orders
    pub orders: usize,
    /// the optimum uses more than one distinct parameter
    pub varied: bool,
    /// some (partition, parameter) cost at the finest order reaches 2^28
    pub saturating: bool,
}

/// Minimum coded size over partition orders 0..=finest and parameters 0..=max_p.
/// `res` holds block - pred_order residuals.
pub fn optimum(res: &[i64], block: usize, pred_order: usize, max_p: usize) -> Option<Opt> {
    let finest = finest_order(block, pred_order)?;
    let zz: Vec<u64> = res.iter().map(|&e| zigzag(e)).collect();
    let mut best: Option<Opt> = None;
    let mut saturating = false;
    for po in 0..=finest {
        let nparts = 1usize << po;
        let plen = block >> po;
        let mut total = 6u64;
        let mut first_k = None;
        let mut varied = false;
        for p in 0..nparts {
            let (a, b) = if p == 0 { (0, plen - pred_order) } else { (p * plen - pred_order, (p + 1) * plen - pred_order) };
            let part = &zz[a..b];
            let mut pbest = u64::MAX;
            let mut kbest = 0;
            for k in 0..=max_p {
                let c: u64 = part.iter().map(|u| (u >> k) + 1 + k as u64).sum();
                if po == finest && c >= (1 << 28) {
                    saturating = true;
                }
                if c < pbest {
                    pbest = c;
                    kbest = k;
                }
            }
            match first_k {
                None => first_k = Some(kbest),
                Some(k0) if k0 != kbest => varied = true,
                _ => {}
            }
            total += 4 + pbest;
        }
        if best.as_ref().map_or(true, |b| total < b.bits) {
            best = Some(Opt { bits: total, order: po as u32, orders: finest + 1, varied, saturating: false });
        }
    }
    best.map(|mut b| {
        b.saturating = saturating;
        b
    })
}
