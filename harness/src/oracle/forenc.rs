//! A tiny independent FLAC *frame writer* for valid frames that use features this library's encoder never emits
//! (wasted bits, RICE2 residuals with 5-bit parameters, escape-coded partitions, non-canonical choices). The frames
//! are fed to the library's parser (C08: components produced by the parser; C16: the parser never panics and what it
//! accepts carries the same audio). Every frame written here is first decoded by the harness' reference reader, so a
//! mistake in this writer shows up as "writer self-test failed", never as a verdict about the library.

use super::bits::BitModel;
use super::refdec::{crc16, crc8};
use serde::{Deserialize, Serialize};

#[derive(Clone, Debug, PartialEq, Serialize, Deserialize)]
pub struct ForeignSub {
    /// 0 constant, 1 verbatim, 2 fixed predictor
    pub kind: u8,
    /// fixed predictor order 0..=4
    pub order: u8,
    /// wasted bits per sample (0 = flag clear)
    pub wasted: u8,
    /// residual coding method 0 (4-bit parameters) / 1 (5-bit parameters)
    pub method: u8,
    pub part_order: u8,
    /// Rice parameter per partition (cycled); 255 = escape code with the minimal raw width
    pub params: Vec<u8>,
}

#[derive(Clone, Debug, PartialEq, Serialize, Deserialize)]
pub struct ForeignFrame {
    pub block: usize,
    pub bps: usize,
    pub rate: usize,
    pub number: u64,
    pub variable: bool,
    /// one entry per channel (independent channels)
    pub subs: Vec<ForeignSub>,
    pub seed: u64,
}

fn put_signed(m: &mut BitModel, v: i64, n: usize) {
    m.push_msb_first((v as u64) & if n >= 64 { u64::MAX } else { (1u64 << n) - 1 }, n);
}

fn utf8like(v: u64) -> Vec<u8> {
    if v < 0x80 {
        return vec![v as u8];
    }
    let bits = 64 - v.leading_zeros() as usize;
    let n = (1..=6).find(|n| bits <= 6 * n + (6 - n)).unwrap_or(6);
    let mut out = vec![0u8; n + 1];
    let mut x = v;
    for i in (1..=n).rev() {
        out[i] = 0x80 | (x & 0x3F) as u8;
        x >>= 6;
    }
    out[0] = ((0xFFu16 << (7 - n)) as u8) | (x as u8);
    out
}

impl ForeignFrame {
    /// Samples per channel: every sample is a multiple of 2^wasted and fits the width.
    pub fn samples(&self) -> Vec<Vec<i64>> {
        let mut r = crate::util::Sm64::new(self.seed);
        self.subs
            .iter()
            .map(|s| {
                let eff = self.bps - s.wasted as usize;
                let (lo, hi) = (-(1i64 << (eff - 1)), (1i64 << (eff - 1)) - 1);
                let mut x = r.range_i64(lo / 4, hi / 4);
                let c = r.range_i64(lo, hi);
                let first = [1i64, 0, -1, hi, lo][(r.next() % 5) as usize];
                (0..self.block)
                    .map(|t| {
                        let v = match s.kind {
                            0 => {
                                if self.seed % 4 == 0 {
                                    first.clamp(lo, hi)
                                } else {
                                    c
                                }
                            }
                            1 => {
                                if t == 0 && self.seed % 3 == 0 {
                                    first.clamp(lo, hi)
                                } else {
                                    r.range_i64(lo, hi)
                                }
                            }
                            _ => {
                                // smooth random walk: small fixed-predictor residuals
                                x = (x + r.range_i64(-9, 9)).clamp(lo / 2, hi / 2);
                                x
                            }
                        };
                        v << s.wasted
                    })
                    .collect()
            })
            .collect()
    }

    /// The frame bytes, or `None` when the description is not encodable (predictor order > block, partition too short ...).
    pub fn bytes(&self) -> Option<Vec<u8>> {
        let ch = self.subs.len();
        if !(1..=8).contains(&ch) || self.block == 0 || self.block > 65535 {
            return None;
        }
        let bs_code: (u8, Vec<u8>) = if self.block <= 256 { (6, vec![(self.block - 1) as u8]) } else { (7, ((self.block - 1) as u16).to_be_bytes().to_vec()) };
        let ss_code = match self.bps {
            8 => 1u8,
            12 => 2,
            16 => 4,
            20 => 5,
            24 => 6,
            _ => return None,
        };
        let (sr_code, sr_extra): (u8, Vec<u8>) = if self.rate <= 65535 { (13, (self.rate as u16).to_be_bytes().to_vec()) } else { (0, vec![]) };
        let mut h = vec![0xFF, 0xF8 | self.variable as u8, (bs_code.0 << 4) | sr_code, (((ch - 1) as u8) << 4) | (ss_code << 1)];
        h.extend(utf8like(self.number));
        h.extend(&bs_code.1);
        h.extend(sr_extra);
        h.push(crc8(&h));
        let mut m = BitModel::from_bytes(&h, h.len() * 8);
        let samples = self.samples();
        for (s, x) in self.subs.iter().zip(&samples) {
            let eff = self.bps - s.wasted as usize;
            let v: Vec<i64> = x.iter().map(|a| a >> s.wasted).collect();
            m.push_msb_first(0, 1);
            let order = s.order.min(4) as usize;
            match s.kind {
                0 => m.push_msb_first(0b000000, 6),
                1 => m.push_msb_first(0b000001, 6),
                _ => {
                    if order > self.block {
                        return None;
                    }
                    m.push_msb_first(0b001000 | order as u64, 6)
                }
            }
            if s.wasted == 0 {
                m.push_msb_first(0, 1);
            } else {
                m.push_msb_first(1, 1);
                m.zeros(s.wasted as usize - 1);
                m.push_msb_first(1, 1);
            }
            match s.kind {
                0 => put_signed(&mut m, v[0], eff),
                1 => {
                    for a in &v {
                        put_signed(&mut m, *a, eff);
                    }
                }
                _ => {
                    for a in &v[..order] {
                        put_signed(&mut m, *a, eff);
                    }
                    // fixed predictor residual
                    let res: Vec<i64> = (order..self.block)
                        .map(|t| match order {
                            0 => v[t],
                            1 => v[t] - v[t - 1],
                            2 => v[t] - 2 * v[t - 1] + v[t - 2],
                            3 => v[t] - 3 * v[t - 1] + 3 * v[t - 2] - v[t - 3],
                            _ => v[t] - 4 * v[t - 1] + 6 * v[t - 2] - 4 * v[t - 3] + v[t - 4],
                        })
                        .collect();
                    let po = s.part_order as usize;
                    let nparts = 1usize << po;
                    if self.block % nparts != 0 || (self.block >> po) <= order && po > 0 || (self.block >> po) < order {
                        return None;
                    }
                    let plen = self.block >> po;
                    let method = s.method & 1;
                    let pbits = 4 + method as usize;
                    let esc = (1u64 << pbits) - 1;
                    m.push_msb_first(method as u64, 2);
                    m.push_msb_first(po as u64, 4);
                    let mut at = 0usize;
                    for p in 0..nparts {
                        let n = if p == 0 { plen - order } else { plen };
                        let part = &res[at..at + n];
                        at += n;
                        let want = s.params.get(p % s.params.len().max(1)).copied().unwrap_or(0);
                        if want == 255 {
                            m.push_msb_first(esc, pbits);
                            let width = part.iter().map(|e| 65 - (if *e < 0 { !*e } else { *e }).leading_zeros() as usize).max().unwrap_or(0).min(31);
                            let width = if part.iter().all(|e| *e == 0) { 0 } else { width };
                            m.push_msb_first(width as u64, 5);
                            for e in part {
                                put_signed(&mut m, *e, width);
                            }
                        } else {
                            let k = (want as u64).min(esc - 1);
                            m.push_msb_first(k, pbits);
                            for e in part {
                                let u = if *e >= 0 { (*e as u64) << 1 } else { (((-(*e + 1)) as u64) << 1) | 1 };
                                let q = u >> k;
                                if q > 4096 {
                                    return None;
                                }
                                m.zeros(q as usize);
                                m.push_msb_first(1, 1);
                                m.push_msb_first(u & ((1u64 << k) - 1), k as usize);
                            }
                        }
                    }
                }
            }
        }
        m.align();
        let mut b = m.to_bytes();
        let c = crc16(&b);
        b.extend(c.to_be_bytes());
        Some(b)
    }

    /// Does the frame use something the library's own encoder never emits?
    pub fn foreign_features(&self) -> Vec<&'static str> {
        let mut v = vec![];
        if self.subs.iter().any(|s| s.wasted > 0) {
            v.push("wasted-bits");
        }
        if self.subs.iter().any(|s| s.kind >= 2 && s.method & 1 == 1) {
            v.push("rice2");
        }
        if self.subs.iter().any(|s| s.kind >= 2 && s.params.iter().any(|p| *p == 255)) {
            v.push("escape-partition");
        }
        if self.variable {
            v.push("variable-blocking");
        }
        v
    }
}
