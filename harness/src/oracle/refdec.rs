//! Independent FLAC reader + strict validator , written from RFC 9639.
//! No code shared with flacenc or claxon.

#[derive(Debug, Clone, Default)]
pub struct StreamInfoT {
    pub min_block: u32,
    pub max_block: u32,
    pub min_frame: u32,
    pub max_frame: u32,
    pub rate: u32,
    pub channels: u32,
    pub bps: u32,
    pub total: u64,
    pub md5: [u8; 16],
    pub is_last: bool,
}

#[derive(Debug, Clone)]
pub enum SubT {
    Constant { value: i64 },
    Verbatim,
    Fixed { order: usize, res: ResT },
    Lpc { order: usize, precision: u32, shift: i32, coefs: Vec<i32>, res: ResT },
}

#[derive(Debug, Clone)]
pub struct ResT {
    pub method: u32,
    pub part_order: u32,
    pub params: Vec<u32>,
    pub escaped: Vec<bool>,
    pub residuals: Vec<i64>, // length = block - order
    pub bits: usize,         // bits used by the residual section
}

#[derive(Debug, Clone)]
pub struct SubframeT {
    pub bps: u32,
    pub wasted: u32,
    pub kind: SubT,
    pub bits: usize,
    pub samples: Vec<i64>,
}

#[derive(Debug, Clone)]
pub struct FrameT {
    pub start: usize,
    pub end: usize, // byte range [start, end)
    pub header_len: usize,
    pub variable: bool,
    pub bs_code: u32,
    pub sr_code: u32,
    pub ch_code: u32,
    pub ss_code: u32,
    pub number: u64,
    pub number_len: usize,
    pub block_size: usize,
    pub subframes: Vec<SubframeT>,
    pub rate: Option<u32>,
    pub bps: u32,
}

#[derive(Debug, Clone, Default)]
pub struct Trace {
    pub info: StreamInfoT,
    pub other_blocks: Vec<(u8, usize)>,
    pub frames: Vec<FrameT>,
    pub audio_start: usize,
    pub samples: Vec<i32>, // interleaved
    pub violations: Vec<String>,
    pub fatal: Option<String>,
}

struct Br<'a> {
    d: &'a [u8],
    pos: usize, // bit position
}

impl<'a> Br<'a> {
    fn new(d: &'a [u8], byte: usize) -> Self {
        Self { d, pos: byte * 8 }
    }
    fn left(&self) -> usize {
        self.d.len() * 8 - self.pos
    }
    #[inline]
    fn bit(&mut self) -> Result<u32, String> {
        if self.pos >= self.d.len() * 8 {
            return Err("unexpected end of data".into());
        }
        let b = (self.d[self.pos / 8] >> (7 - self.pos % 8)) & 1;
        self.pos += 1;
        Ok(b as u32)
    }
    fn bits(&mut self, n: usize) -> Result<u64, String> {
        if n == 0 {
            return Ok(0);
        }
        if n > 64 || self.pos + n > self.d.len() * 8 {
            return Err("unexpected end of data".into());
        }
        let mut v = 0u64;
        let mut left = n;
        while left > 0 {
            let byte = self.d[self.pos / 8] as u64;
            let avail = 8 - self.pos % 8;
            let take = avail.min(left);
            let chunk = (byte >> (avail - take)) & ((1u64 << take) - 1);
            v = (v << take) | chunk;
            self.pos += take;
            left -= take;
        }
        Ok(v)
    }
    fn sbits(&mut self, n: usize) -> Result<i64, String> {
        let v = self.bits(n)?;
        if n == 0 {
            return Ok(0);
        }
        if v >> (n - 1) & 1 == 1 {
            Ok(v as i64 - (1i64 << n))
        } else {
            Ok(v as i64)
        }
    }
    fn unary(&mut self) -> Result<u64, String> {
        let mut q = 0u64;
        loop {
            if self.pos >= self.d.len() * 8 {
                return Err("unexpected end of data".into());
            }
            let avail = 8 - self.pos % 8;
            let byte = (self.d[self.pos / 8] as u32) & ((1u32 << avail) - 1);
            if byte == 0 {
                q += avail as u64;
                self.pos += avail;
            } else {
                let lz = (byte.leading_zeros() - (32 - avail as u32)) as usize;
                q += lz as u64;
                self.pos += lz + 1;
                return Ok(q);
            }
        }
    }
}

pub fn crc8(d: &[u8]) -> u8 {
    let mut c = 0u8;
    for &b in d {
        c ^= b;
        for _ in 0..8 {
            c = if c & 0x80 != 0 { (c << 1) ^ 0x07 } else { c << 1 };
        }
    }
    c
}

pub fn crc16(d: &[u8]) -> u16 {
    let mut c = 0u16;
    for &b in d {
        c ^= (b as u16) << 8;
        for _ in 0..8 {
            c = if c & 0x8000 != 0 { (c << 1) ^ 0x8005 } else { c << 1 };
        }
    }
    c
}

const FIXED: [&[i64]; 5] = [&[], &[1], &[2, -1], &[3, -3, 1], &[4, -6, 4, -1]];

fn residual(br: &mut Br, block: usize, order: usize, v: &mut Vec<String>) -> Result<ResT, String> {
    let start = br.pos;
    let method = br.bits(2)? as u32;
    if method > 1 {
        return Err(format!("reserved residual coding method {method}"));
    }
    let pbits = if method == 0 { 4 } else { 5 };
    let esc = (1u32 << pbits) - 1;
    let po = br.bits(4)? as u32;
    let nparts = 1usize << po;
    if po > 0 && block % nparts != 0 {
        v.push(format!("block size {block} not divisible by 2^{po}"));
        return Err("partition order does not divide block".into());
    }
    let plen = block >> po;
    if plen < order {
        v.push(format!("first partition ({plen}) shorter than predictor order {order}"));
        return Err("first partition shorter than order".into());
    }
    if po > 0 && plen == order {
        // RFC 9639 9.2.7: (block size >> partition order) MUST be larger than the predictor order
        v.push(format!("first partition is empty: block size >> partition order = {plen} is not larger than the predictor order {order}"));
    }
    let mut params = vec![];
    let mut escaped = vec![];
    let mut res = Vec::with_capacity(block - order);
    for p in 0..nparts {
        let n = if p == 0 { plen - order } else { plen };
        let k = br.bits(pbits)? as u32;
        if k == esc {
            v.push(format!("escaped partition (param code {k})"));
            let w = br.bits(5)? as usize;
            params.push(w as u32);
            escaped.push(true);
            for _ in 0..n {
                res.push(br.sbits(w)?);
            }
        } else {
            params.push(k);
            escaped.push(false);
            for _ in 0..n {
                let q = br.unary()?;
                let r = br.bits(k as usize)?;
                let u = (q << k) | r;
                let e = if u & 1 == 1 { -((u >> 1) as i64) - 1 } else { (u >> 1) as i64 };
                if e <= i32::MIN as i64 || e > i32::MAX as i64 {
                    v.push(format!("residual {e} not representable in 32 bits"));
                }
                res.push(e);
            }
        }
    }
    Ok(ResT { method, part_order: po, params, escaped, residuals: res, bits: br.pos - start })
}

fn subframe(br: &mut Br, block: usize, bps: u32, v: &mut Vec<String>) -> Result<SubframeT, String> {
    let start = br.pos;
    if br.bit()? != 0 {
        v.push("subframe padding bit set".into());
    }
    let ty = br.bits(6)? as u32;
    let mut wasted = 0u32;
    if br.bit()? == 1 {
        wasted = br.unary()? as u32 + 1;
        if wasted >= bps {
            return Err(format!("wasted bits {wasted} >= sample width {bps}"));
        }
    }
    let ebps = bps - wasted;
    let mut samples: Vec<i64> = Vec::with_capacity(block);
    let kind;
    if ty == 0 {
        let val = br.sbits(ebps as usize)?;
        samples.resize(block, val);
        kind = SubT::Constant { value: val };
    } else if ty == 1 {
        for _ in 0..block {
            samples.push(br.sbits(ebps as usize)?);
        }
        kind = SubT::Verbatim;
    } else if (8..=12).contains(&ty) {
        let order = (ty - 8) as usize;
        if order >= block && !(order == 0) {
            v.push(format!("fixed order {order} not below block size {block}"));
        }
        if order > block {
            return Err("fixed order above block size".into());
        }
        for _ in 0..order {
            samples.push(br.sbits(ebps as usize)?);
        }
        let res = residual(br, block, order, v)?;
        for (i, e) in res.residuals.iter().enumerate() {
            let t = order + i;
            let mut pred = 0i64;
            for (j, c) in FIXED[order].iter().enumerate() {
                pred += c * samples[t - 1 - j];
            }
            let x = pred + e;
            if x.abs() > (1i64 << 40) {
                return Err(format!("fixed-predictor reconstruction diverges (sample {x} at {t})"));
            }
            samples.push(x);
        }
        kind = SubT::Fixed { order, res };
    } else if ty >= 32 {
        let order = (ty - 31) as usize;
        if order >= block {
            v.push(format!("lpc order {order} not below block size {block}"));
        }
        if order > block {
            return Err("lpc order above block size".into());
        }
        for _ in 0..order {
            samples.push(br.sbits(ebps as usize)?);
        }
        let pc = br.bits(4)? as u32;
        if pc == 15 {
            return Err("invalid lpc precision code 1111".into());
        }
        let precision = pc + 1;
        let shift = br.sbits(5)? as i32;
        if shift < 0 {
            v.push(format!("negative lpc shift {shift}"));
            return Err("negative shift".into());
        }
        let mut coefs = vec![];
        for _ in 0..order {
            coefs.push(br.sbits(precision as usize)? as i32);
        }
        let res = residual(br, block, order, v)?;
        for (i, e) in res.residuals.iter().enumerate() {
            let t = order + i;
            let mut pred = 0i64;
            for (j, c) in coefs.iter().enumerate() {
                pred += *c as i64 * samples[t - 1 - j];
            }
            let x = (pred >> shift) + e;
            if x.abs() > (1i64 << 40) {
                return Err(format!("LPC reconstruction diverges (sample {x} at {t})"));
            }
            samples.push(x);
        }
        kind = SubT::Lpc { order, precision, shift, coefs, res };
    } else {
        return Err(format!("reserved subframe type {ty:#08b}"));
    }
    let lo = -(1i64 << (ebps - 1));
    let hi = (1i64 << (ebps - 1)) - 1;
    if let Some(x) = samples.iter().find(|x| **x < lo || **x > hi) {
        v.push(format!("decoded sample {x} outside {ebps}-bit range"));
    }
    if wasted > 0 {
        for s in samples.iter_mut() {
            *s <<= wasted;
        }
    }
    Ok(SubframeT { bps, wasted, kind, bits: br.pos - start, samples })
}

fn utf8(d: &[u8], pos: usize, v: &mut Vec<String>) -> Result<(u64, usize), String> {
    let b0 = *d.get(pos).ok_or("eof in coded number")?;
    let (n, init) = if b0 & 0x80 == 0 {
        (0, (b0 & 0x7F) as u64)
    } else if b0 & 0xE0 == 0xC0 {
        (1, (b0 & 0x1F) as u64)
    } else if b0 & 0xF0 == 0xE0 {
        (2, (b0 & 0x0F) as u64)
    } else if b0 & 0xF8 == 0xF0 {
        (3, (b0 & 0x07) as u64)
    } else if b0 & 0xFC == 0xF8 {
        (4, (b0 & 0x03) as u64)
    } else if b0 & 0xFE == 0xFC {
        (5, (b0 & 0x01) as u64)
    } else if b0 == 0xFE {
        (6, 0)
    } else {
        return Err(format!("invalid first byte of coded number {b0:#x}"));
    };
    let mut val = init;
    for i in 0..n {
        let b = *d.get(pos + 1 + i).ok_or("eof in coded number")?;
        if b & 0xC0 != 0x80 {
            return Err(format!("invalid continuation byte {b:#x}"));
        }
        val = (val << 6) | (b & 0x3F) as u64;
    }
    // shortest form
    let min_len = if val < 0x80 { 1 } else if val < 0x800 { 2 } else if val < 0x1_0000 { 3 } else if val < 0x20_0000 { 4 } else if val < 0x400_0000 { 5 } else if val < 0x8000_0000 { 6 } else { 7 };
    if n + 1 != min_len {
        v.push(format!("coded number {val} uses {} bytes, shortest form is {min_len}", n + 1));
    }
    Ok((val, n + 1))
}


/// What a frame is expected to agree with (from STREAMINFO or from the caller).
#[derive(Debug, Clone, Default)]
pub struct FrameCtx {
    pub rate: Option<u32>,
    pub bps: Option<u32>,
    pub channels: Option<usize>,
    pub max_block: Option<u32>,
}

/// Decodes one frame starting at byte `pos`; returns the trace, per-channel output samples and the
/// position after the frame.
pub fn decode_frame(d: &[u8], pos: usize, ctx: &FrameCtx, index: u64, v: &mut Vec<String>) -> Result<(FrameT, Vec<Vec<i64>>, usize), String> {
    let fstart = pos;
    if pos + 5 > d.len() {
        return Err("eof in frame header".into());
    }
    let sync = ((d[pos] as u32) << 8) | d[pos + 1] as u32;
    if sync & 0xFFFE != 0xFFF8 {
        return Err(format!("bad sync/reserved {sync:#06x} at byte {pos}"));
    }
    let variable = sync & 1 == 1;
    if variable {
        v.push(format!("frame {index}: variable-blocksize strategy bit set"));
    }
    let bs_code = (d[pos + 2] >> 4) as u32;
    let sr_code = (d[pos + 2] & 0x0F) as u32;
    let ch_code = (d[pos + 3] >> 4) as u32;
    let ss_code = ((d[pos + 3] >> 1) & 0x07) as u32;
    if d[pos + 3] & 1 != 0 {
        return Err("reserved bit in frame header set".into());
    }
    let (number, nlen) = utf8(d, pos + 4, v)?;
    if !variable && number >= (1u64 << 31) {
        v.push(format!("frame number {number} needs more than 31 bits"));
    }
    let mut p = pos + 4 + nlen;
    let block_size = match bs_code {
        0 => return Err("reserved block size code 0000".into()),
        1 => 192,
        2..=5 => 576usize << (bs_code - 2),
        6 => {
            let x = *d.get(p).ok_or("eof")? as usize + 1;
            p += 1;
            x
        }
        7 => {
            if p + 2 > d.len() {
                return Err("eof".into());
            }
            let x = (((d[p] as usize) << 8) | d[p + 1] as usize) + 1;
            p += 2;
            x
        }
        _ => 256usize << (bs_code - 8),
    };
    let rate = match sr_code {
        0 => ctx.rate,
        1 => Some(88200),
        2 => Some(176400),
        3 => Some(192000),
        4 => Some(8000),
        5 => Some(16000),
        6 => Some(22050),
        7 => Some(24000),
        8 => Some(32000),
        9 => Some(44100),
        10 => Some(48000),
        11 => Some(96000),
        12 => {
            let x = *d.get(p).ok_or("eof")? as u32 * 1000;
            p += 1;
            Some(x)
        }
        13 | 14 => {
            if p + 2 > d.len() {
                return Err("eof".into());
            }
            let x = ((d[p] as u32) << 8) | d[p + 1] as u32;
            p += 2;
            Some(if sr_code == 13 { x } else { x * 10 })
        }
        _ => return Err("invalid sample rate code 1111".into()),
    };
    if let (Some(r), Some(ir)) = (rate, ctx.rate) {
        if r != ir {
            v.push(format!("frame {index}: sample rate {r} != STREAMINFO {ir}"));
        }
    }
    let fbps = match ss_code {
        0 => ctx.bps,
        1 => Some(8),
        2 => Some(12),
        3 => return Err("reserved sample size code 011".into()),
        4 => Some(16),
        5 => Some(20),
        6 => Some(24),
        _ => Some(32),
    };
    let Some(fbps) = fbps else { return Err("sample size not known (code 000 without STREAMINFO)".into()) };
    if let Some(ib) = ctx.bps {
        if fbps != ib {
            v.push(format!("frame {index}: sample size {fbps} != STREAMINFO {ib}"));
        }
    }
    let nch = match ch_code {
        0..=7 => ch_code as usize + 1,
        8..=10 => 2,
        _ => return Err(format!("reserved channel code {ch_code}")),
    };
    if let Some(ch) = ctx.channels {
        if nch != ch {
            v.push(format!("frame {index}: {nch} channels != STREAMINFO {ch}"));
        }
    }
    let c8 = *d.get(p).ok_or("eof")?;
    if crc8(&d[pos..p]) != c8 {
        return Err(format!("frame {index}: header CRC-8 mismatch"));
    }
    p += 1;
    let header_len = p - pos;
    if let Some(mb) = ctx.max_block {
        if block_size as u32 > mb {
            v.push(format!("frame {index}: block size {block_size} > STREAMINFO max {mb}"));
        }
    }
    let mut br = Br::new(d, p);
    let mut subs = vec![];
    for c in 0..nch {
        let side = match ch_code {
            8 => c == 1,
            9 => c == 0,
            10 => c == 1,
            _ => false,
        };
        let sb = fbps + side as u32;
        subs.push(subframe(&mut br, block_size, sb, v)?);
    }
    while br.pos % 8 != 0 {
        if br.bit()? != 0 {
            v.push(format!("frame {index}: non-zero padding bit"));
        }
    }
    let body_end = br.pos / 8;
    if body_end + 2 > d.len() {
        return Err("eof before frame CRC".into());
    }
    let c16 = ((d[body_end] as u16) << 8) | d[body_end + 1] as u16;
    if crc16(&d[fstart..body_end]) != c16 {
        return Err(format!("frame {index}: CRC-16 mismatch"));
    }
    let _ = br.left();
    let end = body_end + 2;
    let mut out: Vec<Vec<i64>> = subs.iter().map(|s| s.samples.clone()).collect();
    match ch_code {
        8 => {
            for t in 0..block_size {
                out[1][t] = out[0][t] - out[1][t];
            }
        }
        9 => {
            for t in 0..block_size {
                out[0][t] = out[0][t] + out[1][t];
            }
        }
        10 => {
            for t in 0..block_size {
                let side = out[1][t];
                let mid = (out[0][t] << 1) | (side & 1);
                out[0][t] = (mid + side) >> 1;
                out[1][t] = (mid - side) >> 1;
            }
        }
        _ => {}
    }
    let lo = -(1i64 << (fbps - 1));
    let hi = (1i64 << (fbps - 1)) - 1;
    'chk: for ch in out.iter() {
        for &x in ch.iter() {
            if x < lo || x > hi {
                v.push(format!("frame {index}: output sample {x} outside {fbps}-bit range"));
                break 'chk;
            }
        }
    }
    Ok((
        FrameT { start: fstart, end, header_len, variable, bs_code, sr_code, ch_code, ss_code, number, number_len: nlen, block_size, subframes: subs, rate, bps: fbps },
        out,
        end,
    ))
}

pub fn decode(d: &[u8], requested_block: Option<usize>) -> Trace {
    let mut tr = Trace::default();
    match decode_inner(d, requested_block, &mut tr) {
        Ok(()) => {}
        Err(e) => tr.fatal = Some(e),
    }
    tr
}

fn decode_inner(d: &[u8], requested_block: Option<usize>, tr: &mut Trace) -> Result<(), String> {
    if d.len() < 4 || &d[0..4] != b"fLaC" {
        return Err("missing fLaC marker".into());
    }
    let mut pos = 4;
    let mut first = true;
    loop {
        if pos + 4 > d.len() {
            return Err("eof in metadata block header".into());
        }
        let last = d[pos] & 0x80 != 0;
        let ty = d[pos] & 0x7F;
        let len = ((d[pos + 1] as usize) << 16) | ((d[pos + 2] as usize) << 8) | d[pos + 3] as usize;
        pos += 4;
        if pos + len > d.len() {
            return Err("eof in metadata block".into());
        }
        if first {
            if ty != 0 {
                return Err("first metadata block is not STREAMINFO".into());
            }
            if len != 34 {
                return Err(format!("STREAMINFO length {len}"));
            }
            let b = &d[pos..pos + 34];
            let mut br = Br::new(b, 0);
            let i = &mut tr.info;
            i.min_block = br.bits(16)? as u32;
            i.max_block = br.bits(16)? as u32;
            i.min_frame = br.bits(24)? as u32;
            i.max_frame = br.bits(24)? as u32;
            i.rate = br.bits(20)? as u32;
            i.channels = br.bits(3)? as u32 + 1;
            i.bps = br.bits(5)? as u32 + 1;
            i.total = br.bits(36)?;
            i.md5.copy_from_slice(&b[18..34]);
            i.is_last = last;
            if i.min_block < 16 {
                tr.violations.push(format!("STREAMINFO min block size {} < 16", i.min_block));
            }
            if i.max_block < 16 {
                tr.violations.push(format!("STREAMINFO max block size {} < 16", i.max_block));
            }
            if i.min_block > i.max_block {
                tr.violations.push("STREAMINFO min block size > max block size".into());
            }
            if i.rate == 0 {
                tr.violations.push("STREAMINFO sample rate 0".into());
            }
            if i.bps < 4 {
                tr.violations.push("STREAMINFO bps < 4".into());
            }
            first = false;
        } else {
            if ty == 0 {
                tr.violations.push("second STREAMINFO block".into());
            }
            if ty == 127 {
                tr.violations.push("metadata block type 127".into());
            }
            tr.other_blocks.push((ty, len));
        }
        pos += len;
        if last {
            break;
        }
    }
    tr.audio_start = pos;
    let info = tr.info.clone();
    let ctx = FrameCtx { rate: Some(info.rate), bps: Some(info.bps), channels: Some(info.channels as usize), max_block: Some(info.max_block) };
    let mut total: u64 = 0;
    let mut index: u64 = 0;
    let mut prev_short = false;
    while pos < d.len() {
        if prev_short {
            tr.violations.push("a frame follows a short (final) frame".into());
        }
        let mut v = std::mem::take(&mut tr.violations);
        let r = decode_frame(d, pos, &ctx, index, &mut v);
        tr.violations = v;
        let (f, out, np) = r?;
        if !f.variable && f.number != index {
            tr.violations.push(format!("frame number {} at index {index}", f.number));
        }
        if let Some(rb) = requested_block {
            if f.block_size > rb {
                tr.violations.push(format!("frame {index}: block size {} > requested {rb}", f.block_size));
            }
            prev_short = f.block_size < rb;
        }
        for t in 0..f.block_size {
            for ch in out.iter() {
                tr.samples.push(ch[t] as i32);
            }
        }
        total += f.block_size as u64;
        index += 1;
        pos = np;
        tr.frames.push(f);
    }
    if info.total != 0 && info.total != total {
        tr.violations.push(format!("STREAMINFO total samples {} != decoded {total}", info.total));
    }
    if info.total == 0 && total != 0 {
        tr.violations.push("STREAMINFO total samples 0 (unknown) for a non-empty stream".into());
    }
    let n = tr.frames.len();
    for (i, f) in tr.frames.iter().enumerate() {
        if i + 1 < n {
            if let Some(rb) = requested_block {
                if f.block_size != rb {
                    tr.violations.push(format!("non-final frame {i} has block size {} != {rb}", f.block_size));
                }
            }
            if (f.block_size as u32) < info.min_block {
                tr.violations.push(format!("non-final frame {i} has block size {} < STREAMINFO min {}", f.block_size, info.min_block));
            }
        }
    }
    Ok(())
}
