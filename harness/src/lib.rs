//! Library part of the verification harness (shared by the `vh` binary and the fuzz targets).
#![allow(dead_code)]
pub mod core;
pub mod enc;
pub mod fuzzglue;
pub mod fuzzrun;
pub mod gen;
pub mod oracle;
pub mod props;
pub mod sched;
pub mod util;
