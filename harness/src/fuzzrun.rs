//! Thorough tier: coverage-guided libFuzzer campaigns (cargo-fuzz targets in harness/fuzz) whose
//! oracles are the ordinary check functions of this harness (see fuzzglue.rs).

use crate::core::{Ctx, Failure, VERIF_ROOT};
use std::process::Command;
use std::sync::atomic::Ordering;

const TARGET_DIR: &str = "/verif/work/fuzz-target";

fn bin(target: &str) -> String {
    format!("{TARGET_DIR}/x86_64-unknown-linux-gnu/release/{target}")
}

/// `cargo +nightly fuzz build` from /repo's working tree (hooks on). ~3 min cold, incremental afterwards.
pub fn build() -> Result<(), String> {
    let out = Command::new("cargo")
        .current_dir(format!("{VERIF_ROOT}/harness"))
        .env("CARGO_NET_OFFLINE", "true")
        .env("RUSTFLAGS", "--cfg flacenc_verif")
        .args(["+nightly", "fuzz", "build", "--target-dir", TARGET_DIR])
        .output()
        .map_err(|e| format!("cargo fuzz: {e}"))?;
    if !out.status.success() {
        let log = format!("{VERIF_ROOT}/work/fuzz-build.log");
        let _ = std::fs::write(&log, &out.stderr);
        return Err(format!("cargo fuzz build failed (see {log})"));
    }
    Ok(())
}

/// Runs `jobs` independent libFuzzer processes of `target` (each `runs` executions, its own fresh
/// corpus directory seeded by the harness, seed derived from VERIF_SEED) with the oracle of
/// property `ctx.prop`. Violations found by the in-target oracle become failures of this check;
/// any other abnormal end is inconclusive.
pub fn campaign(ctx: &Ctx, target: &str, jobs: usize, runs: u64, max_len: usize) {
    if ctx.stop.load(Ordering::SeqCst) {
        return;
    }
    if let Err(e) = build() {
        ctx.inconclusive.lock().unwrap().push(e);
        return;
    }
    let base = format!("{VERIF_ROOT}/work/fz/{}-{}", ctx.prop, target);
    let _ = std::fs::remove_dir_all(&base);
    let mut handles = vec![];
    for j in 0..jobs {
        let dir = format!("{base}/job{j}");
        let seed = (crate::util::mix(ctx.seed, j as u64 + 1) % 0x7fff_fffe + 1) as u32;
        let n_seed_files = match crate::fuzzglue::write_corpus(target, &format!("{dir}/corpus"), ctx.seed ^ j as u64) {
            Ok(n) => n,
            Err(e) => {
                ctx.inconclusive.lock().unwrap().push(format!("corpus: {e}"));
                return;
            }
        };
        let (target, prop) = (target.to_string(), ctx.prop.to_string());
        handles.push(std::thread::spawn(move || {
            let mut cmd = Command::new(bin(&target));
            // AddressSanitizer reserves terabytes of address space: lift the soft RLIMIT_AS the front end
            // sets for the harness itself (libFuzzer's -rss_limit_mb bounds real memory instead)
            unsafe {
                use std::os::unix::process::CommandExt;
                cmd.pre_exec(|| {
                    let mut lim = libc::rlimit { rlim_cur: 0, rlim_max: 0 };
                    if libc::getrlimit(libc::RLIMIT_AS, &mut lim) == 0 {
                        lim.rlim_cur = lim.rlim_max;
                        libc::setrlimit(libc::RLIMIT_AS, &lim);
                    }
                    Ok(())
                });
            }
            let out = cmd
                .env("VH_FUZZ_PROP", &prop)
                .env_remove("FLACENC_WORKERS")
                .args([
                    format!("-runs={runs}"),
                    format!("-seed={seed}"),
                    format!("-max_len={max_len}"),
                    "-len_control=0".to_string(),
                    "-rss_limit_mb=6000".to_string(),
                    "-timeout=120".to_string(),
                    "-print_final_stats=1".to_string(),
                    format!("-artifact_prefix={dir}/artifact-"),
                    format!("{dir}/corpus"),
                ])
                .output();
            (j, dir, n_seed_files, out)
        }));
    }
    let mut execs = 0u64;
    let mut corpus_total = 0u64;
    let mut cov_max = 0u64;
    for h in handles {
        let Ok((j, dir, n_seed_files, out)) = h.join() else {
            ctx.inconclusive.lock().unwrap().push("fuzz job thread panicked".into());
            continue;
        };
        let out = match out {
            Ok(o) => o,
            Err(e) => {
                ctx.inconclusive.lock().unwrap().push(format!("cannot start {target}: {e}"));
                continue;
            }
        };
        let stdout = String::from_utf8_lossy(&out.stdout).to_string();
        let stderr = String::from_utf8_lossy(&out.stderr).to_string();
        for l in stderr.lines() {
            if let Some(v) = l.strip_prefix("stat::number_of_executed_units:") {
                execs += v.trim().parse::<u64>().unwrap_or(0);
            }
            if let Some(i) = l.find(" cov: ") {
                let n: u64 = l[i + 6..].split(' ').next().and_then(|x| x.parse().ok()).unwrap_or(0);
                cov_max = cov_max.max(n);
            }
        }
        let files = std::fs::read_dir(format!("{dir}/corpus")).map(|r| r.count()).unwrap_or(0) as u64;
        corpus_total += files.saturating_sub(n_seed_files as u64);
        let mut reported = false;
        let mut lines = stdout.lines();
        while let Some(l) = lines.next() {
            if let Some(rest) = l.strip_prefix("VIOLATION property=") {
                let mut it = rest.split(" replay=");
                let (p, path) = (it.next().unwrap_or(""), it.next().unwrap_or(""));
                if p == ctx.prop {
                    if let Ok(s) = std::fs::read_to_string(path) {
                        if let Ok(v) = serde_json::from_str::<serde_json::Value>(&s) {
                            ctx.failures.lock().unwrap().push(Failure {
                                label: v.get("kind").and_then(|k| k.as_str()).unwrap_or("fuzz").to_string(),
                                sig: v.get("sig").and_then(|k| k.as_str()).unwrap_or("?").to_string(),
                                detail: format!("[found by libFuzzer target {target}, job {j}] {}", v.get("detail").and_then(|k| k.as_str()).unwrap_or("")),
                                case: v.get("case").cloned().unwrap_or(serde_json::Value::Null),
                            });
                            ctx.stop.store(true, Ordering::SeqCst);
                            reported = true;
                        }
                    }
                }
            }
        }
        if !out.status.success() && !reported {
            let tail: String = stderr.lines().rev().take(12).collect::<Vec<_>>().into_iter().rev().collect::<Vec<_>>().join(" | ");
            ctx.inconclusive.lock().unwrap().push(format!("libFuzzer target {target} job {j} ended abnormally without an oracle verdict (status {:?}): {}", out.status.code(), tail.chars().take(700).collect::<String>()));
        }
    }
    ctx.evaluations.fetch_add(execs, Ordering::Relaxed);
    ctx.bulk_distinct.fetch_add(corpus_total, Ordering::Relaxed);
    ctx.bump(&format!("fuzz:{target}:executions"), execs);
    ctx.bump(&format!("fuzz:{target}:new-coverage-inputs(counted as distinct non-trivial)"), corpus_total);
    ctx.bump(&format!("fuzz:{target}:edges-covered(max over jobs)"), cov_max);
    ctx.rule(&format!(
        "thorough tier also runs {jobs} libFuzzer processes of target {target} ({runs} executions each, -seed derived from VERIF_SEED, fresh corpus seeded by the harness, -len_control=0, max_len {max_len}) with this property's oracle inside the target; inputs that reached new coverage are counted as distinct non-trivial cases"
    ));
}

/// Number of executions per libFuzzer job (`VH_FUZZ_RUNS` overrides; used for smoke tests).
pub fn runs(default: u64) -> u64 {
    std::env::var("VH_FUZZ_RUNS").ok().and_then(|s| s.parse().ok()).unwrap_or(default)
}
