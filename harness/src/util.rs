//! Small shared utilities: panic capture, deterministic PRNG, hashing.

use std::cell::RefCell;
use std::panic::{catch_unwind, AssertUnwindSafe};
use std::sync::Mutex;
use std::sync::Once;

#[derive(Clone, Debug, PartialEq, Eq)]
pub struct PanicInfo {
    pub loc: String,
    pub msg: String,
    pub thread: String,
}

impl PanicInfo {
    /// Signature used for known-finding matching: `file:line:message-prefix`.
    pub fn sig(&self) -> String {
        let m: String = self.msg.chars().take(60).collect();
        format!("panic@{}:{}", self.loc, m.replace('\n', " "))
    }
}

thread_local! {
    static LAST_PANIC: RefCell<Option<PanicInfo>> = const { RefCell::new(None) };
}

/// Panics of every thread, in order of occurrence (used for helper threads).
pub static ALL_PANICS: Mutex<Vec<PanicInfo>> = Mutex::new(Vec::new());

static HOOK: Once = Once::new();

fn strip_repo(p: &str) -> String {
    // keep paths stable regardless of where the repo lives
    if let Some(i) = p.find("/src/") {
        let head = &p[..i];
        if head.ends_with("repo") || head.contains("flacenc") {
            return format!("flacenc/{}", &p[i + 1..]);
        }
    }
    p.to_string()
}

/// Installs the silent, recording panic hook (idempotent).
pub fn install_panic_hook() {
    HOOK.call_once(|| {
        std::panic::set_hook(Box::new(|info| {
            let loc = info
                .location()
                .map(|l| format!("{}:{}", strip_repo(l.file()), l.line()))
                .unwrap_or_else(|| "?".into());
            let msg = if let Some(s) = info.payload().downcast_ref::<&str>() {
                (*s).to_string()
            } else if let Some(s) = info.payload().downcast_ref::<String>() {
                s.clone()
            } else {
                "<non-string panic payload>".to_string()
            };
            let pi = PanicInfo {
                loc,
                msg,
                thread: format!("{:?}", std::thread::current().id()),
            };
            if std::env::var_os("VH_VERBOSE_PANIC").is_some() {
                eprintln!("[panic] {} @ {} on {}\n{}", pi.msg, pi.loc, pi.thread, std::backtrace::Backtrace::force_capture());
            }
            let _ = LAST_PANIC.try_with(|c| *c.borrow_mut() = Some(pi.clone()));
            if let Ok(mut g) = ALL_PANICS.lock() {
                if g.len() < 10_000 {
                    g.push(pi);
                }
            }
        }));
    });
}

/// Runs `f`, converting a panic of the calling thread into `Err(PanicInfo)`.
pub fn catch<T>(f: impl FnOnce() -> T) -> Result<T, PanicInfo> {
    install_panic_hook();
    LAST_PANIC.with(|c| *c.borrow_mut() = None);
    match catch_unwind(AssertUnwindSafe(f)) {
        Ok(v) => Ok(v),
        Err(_) => Err(LAST_PANIC.with(|c| c.borrow_mut().take()).unwrap_or(PanicInfo {
            loc: "?".into(),
            msg: "panic without info".into(),
            thread: "?".into(),
        })),
    }
}

/// SplitMix64: expands a generated 64-bit seed into a deterministic stream.
#[derive(Clone, Debug)]
pub struct Sm64(pub u64);

impl Sm64 {
    pub fn new(seed: u64) -> Self {
        Self(seed)
    }
    #[inline]
    pub fn next(&mut self) -> u64 {
        self.0 = self.0.wrapping_add(0x9E37_79B9_7F4A_7C15);
        let mut z = self.0;
        z = (z ^ (z >> 30)).wrapping_mul(0xBF58_476D_1CE4_E5B9);
        z = (z ^ (z >> 27)).wrapping_mul(0x94D0_49BB_1331_11EB);
        z ^ (z >> 31)
    }
    /// Uniform in `0..n` (n > 0).
    #[inline]
    pub fn below(&mut self, n: u64) -> u64 {
        ((self.next() as u128 * n as u128) >> 64) as u64
    }
    /// Uniform in `lo..=hi`.
    #[inline]
    pub fn range_i64(&mut self, lo: i64, hi: i64) -> i64 {
        let span = (hi - lo) as u64 + 1;
        lo + self.below(span) as i64
    }
    #[inline]
    pub fn unit(&mut self) -> f64 {
        (self.next() >> 11) as f64 / (1u64 << 53) as f64
    }
}

/// FNV-1a over bytes (deterministic across runs; std's SipHash keys are random).
pub fn fnv(data: &[u8]) -> u64 {
    let mut h = 0xcbf2_9ce4_8422_2325u64;
    for b in data {
        h ^= *b as u64;
        h = h.wrapping_mul(0x0000_0100_0000_01B3);
    }
    h
}

pub fn fnv_str(s: &str) -> u64 {
    fnv(s.as_bytes())
}

pub fn mix(a: u64, b: u64) -> u64 {
    let mut s = Sm64(a ^ b.rotate_left(32) ^ 0xD6E8_FEB8_6659_FD93);
    s.next()
}

pub fn hex(b: &[u8]) -> String {
    b.iter().map(|x| format!("{x:02x}")).collect()
}

pub fn unhex(s: &str) -> Vec<u8> {
    (0..s.len() / 2)
        .map(|i| u8::from_str_radix(&s[2 * i..2 * i + 2], 16).unwrap_or(0))
        .collect()
}

/// Reads structured values out of fuzzer bytes (zeros past the end).
pub struct Cursor<'a> {
    pub d: &'a [u8],
    pub i: usize,
}

impl<'a> Cursor<'a> {
    pub fn u8(&mut self) -> u8 {
        let v = self.d.get(self.i).copied().unwrap_or(0);
        self.i += 1;
        v
    }
    pub fn u16(&mut self) -> u16 {
        (self.u8() as u16) << 8 | self.u8() as u16
    }
    pub fn u32(&mut self) -> u32 {
        (self.u16() as u32) << 16 | self.u16() as u32
    }
    pub fn u64(&mut self) -> u64 {
        (self.u32() as u64) << 32 | self.u32() as u64
    }
    /// uniform-ish in lo..=hi, monotone in the byte value
    pub fn range(&mut self, lo: usize, hi: usize) -> usize {
        let span = hi - lo + 1;
        if span <= 256 {
            lo + (self.u8() as usize * span) / 256
        } else {
            lo + (self.u16() as usize * span) / 65536
        }
    }
    pub fn rest(&self) -> &'a [u8] {
        &self.d[self.i.min(self.d.len())..]
    }
}

