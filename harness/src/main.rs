//! `vh <property> [--tier quick|thorough] [--replay <file>] [--strict]`
//! One binary for all checks; see /verif/DESIGN.md.

use vh::core::{self, Ctx, Known, Tier};
use vh::{oracle, props, util};

fn usage() -> ! {
    eprintln!("usage: vh <C01..C20> [--tier quick|thorough] [--replay <file>] [--strict]");
    std::process::exit(2);
}

fn main() {
    let args: Vec<String> = std::env::args().collect();
    if args.len() < 2 {
        usage();
    }
    let prop = args[1].clone();
    let mut tier = match std::env::var("VERIF_TIER").ok().as_deref() {
        Some("thorough") => Tier::Thorough,
        _ => Tier::Quick,
    };
    let mut replay: Option<String> = None;
    let mut strict = false;
    let mut i = 2;
    let mut rest: Vec<String> = vec![];
    while i < args.len() {
        match args[i].as_str() {
            "--tier" => {
                i += 1;
                tier = match args.get(i).map(String::as_str) {
                    Some("thorough") => Tier::Thorough,
                    Some("quick") => Tier::Quick,
                    _ => usage(),
                };
            }
            "--replay" => {
                i += 1;
                replay = args.get(i).cloned();
                if replay.is_none() {
                    usage();
                }
            }
            "--strict" => strict = true,
            other => rest.push(other.to_string()),
        }
        i += 1;
    }
    let seed: u64 = std::env::var("VERIF_SEED").ok().and_then(|s| s.trim().parse::<i128>().ok()).map(|v| v as u64).unwrap_or(20260929);
    util::install_panic_hook();
    oracle::md5::self_test();

    if let Some(code) = props::internal(&prop, &rest) {
        std::process::exit(code);
    }
    let Some(p) = props::find(&prop) else {
        eprintln!("unknown property {prop}");
        std::process::exit(2);
    };
    if let Some(path) = replay {
        let known = if strict { Known::default() } else { Known::load() };
        match (p.replay)(&path) {
            Ok(out) => std::process::exit(core::report_replay(p.id, &path, &out, &known)),
            Err(e) => {
                eprintln!("replay failed: {e}");
                std::process::exit(2);
            }
        }
    }
    let mut ctx = Ctx::new(p.id, p.level, tier, seed);
    ctx.strict = strict;
    // committed regression tier first (seconds)
    props::run_regressions(&ctx, &p);
    (p.run)(&ctx);
    std::process::exit(ctx.finish());
}
