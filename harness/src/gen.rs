//! Generators: encoder configurations and PCM inputs (sound: only values the
//! API documents / `Verify` accepts), plus their materialisation.

use crate::util::Sm64;
use flacenc::config;
use proptest::prelude::*;
use serde::{Deserialize, Serialize};

// ------------------------------------------------------------------------------------------
// configuration
// ------------------------------------------------------------------------------------------

/// Plain mirror of all 17 fields of `config::Encoder`.
#[derive(Clone, Debug, PartialEq, Serialize, Deserialize)]
pub struct CfgSpec {
    pub block_size: usize,
    pub multithread: bool,
    /// `None` => `workers: None`.
    pub workers: Option<usize>,
    pub ls: bool,
    pub rs: bool,
    pub ms: bool,
    pub use_constant: bool,
    pub use_fixed: bool,
    pub use_lpc: bool,
    pub fixed_max_order: usize,
    /// `None` = BitCount, `Some(p)` = ApproxEnt { partitions: p }.
    pub order_sel: Option<usize>,
    pub lpc_order: usize,
    pub quant_precision: usize,
    pub use_direct_mse: bool,
    pub mae_steps: usize,
    /// `None` = Rectangle, `Some(bits)` = Tukey { alpha: f32::from_bits(bits) }.
    pub window: Option<u32>,
    pub max_parameter: usize,
    /// `config.block_size` when it differs from the `block_size` ARGUMENT of the entry points (the
    /// library documents the argument as the block size; the configuration field is then not used).
    /// `None` = the configuration field equals `block_size`.
    #[serde(default, skip_serializing_if = "Option::is_none")]
    pub cfg_block: Option<usize>,
}

impl Default for CfgSpec {
    fn default() -> Self {
        Self {
            block_size: 4096,
            multithread: false,
            workers: None,
            ls: true,
            rs: true,
            ms: true,
            use_constant: true,
            use_fixed: true,
            use_lpc: true,
            fixed_max_order: 4,
            order_sel: Some(16),
            lpc_order: 10,
            quant_precision: 15,
            use_direct_mse: false,
            mae_steps: 0,
            window: Some(0.4f32.to_bits()),
            max_parameter: 14,
            cfg_block: None,
        }
    }
}

impl CfgSpec {
    pub fn to_encoder(&self) -> config::Encoder {
        let mut c = config::Encoder::default();
        c.block_size = self.cfg_block.unwrap_or(self.block_size);
        c.multithread = self.multithread;
        c.workers = self.workers.and_then(std::num::NonZeroUsize::new);
        c.stereo_coding.use_leftside = self.ls;
        c.stereo_coding.use_rightside = self.rs;
        c.stereo_coding.use_midside = self.ms;
        c.subframe_coding.use_constant = self.use_constant;
        c.subframe_coding.use_fixed = self.use_fixed;
        c.subframe_coding.use_lpc = self.use_lpc;
        c.subframe_coding.fixed.max_order = self.fixed_max_order;
        c.subframe_coding.fixed.order_sel = match self.order_sel {
            None => config::OrderSel::BitCount,
            Some(p) => config::OrderSel::ApproxEnt { partitions: p },
        };
        c.subframe_coding.qlpc.lpc_order = self.lpc_order;
        c.subframe_coding.qlpc.quant_precision = self.quant_precision;
        c.subframe_coding.qlpc.use_direct_mse = self.use_direct_mse;
        c.subframe_coding.qlpc.mae_optimization_steps = self.mae_steps;
        c.subframe_coding.qlpc.window = match self.window {
            None => config::Window::Rectangle,
            Some(b) => config::Window::Tukey { alpha: f32::from_bits(b) },
        };
        c.subframe_coding.prc.max_parameter = self.max_parameter;
        c
    }

    pub fn from_encoder(c: &config::Encoder) -> Self {
        Self {
            block_size: c.block_size,
            multithread: c.multithread,
            workers: c.workers.map(|w| w.get()),
            ls: c.stereo_coding.use_leftside,
            rs: c.stereo_coding.use_rightside,
            ms: c.stereo_coding.use_midside,
            use_constant: c.subframe_coding.use_constant,
            use_fixed: c.subframe_coding.use_fixed,
            use_lpc: c.subframe_coding.use_lpc,
            fixed_max_order: c.subframe_coding.fixed.max_order,
            order_sel: match c.subframe_coding.fixed.order_sel {
                config::OrderSel::BitCount => None,
                config::OrderSel::ApproxEnt { partitions } => Some(partitions),
                #[allow(unreachable_patterns)]
                _ => None,
            },
            lpc_order: c.subframe_coding.qlpc.lpc_order,
            quant_precision: c.subframe_coding.qlpc.quant_precision,
            use_direct_mse: c.subframe_coding.qlpc.use_direct_mse,
            mae_steps: c.subframe_coding.qlpc.mae_optimization_steps,
            window: match c.subframe_coding.qlpc.window {
                config::Window::Rectangle => None,
                config::Window::Tukey { alpha } => Some(alpha.to_bits()),
                #[allow(unreachable_patterns)]
                _ => None,
            },
            max_parameter: c.subframe_coding.prc.max_parameter,
            cfg_block: None,
        }
    }

    /// The documented ranges, written down independently of `Verify` (C07 oracle).
    pub fn in_documented_range(&self, experimental: bool) -> Result<(), &'static str> {
        if !(32..=32767).contains(&self.block_size) {
            return Err("block_size");
        }
        if self.fixed_max_order > 4 {
            return Err("max_order");
        }
        if let Some(p) = self.order_sel {
            if !(1..=64).contains(&p) {
                return Err("partitions");
            }
        }
        if !(1..=24).contains(&self.lpc_order) {
            return Err("lpc_order");
        }
        if !(1..=15).contains(&self.quant_precision) {
            return Err("quant_precision");
        }
        if !experimental && self.use_direct_mse {
            return Err("use_direct_mse");
        }
        if !experimental && self.mae_steps != 0 {
            return Err("mae_optimization_steps");
        }
        if let Some(b) = self.window {
            let a = f32::from_bits(b);
            if a.is_nan() || !(a >= 0.0 && a <= 1.0) {
                return Err("alpha");
            }
        }
        if self.max_parameter > 14 {
            return Err("max_parameter");
        }
        Ok(())
    }

    /// Every field that lies outside its documented range.
    pub fn offending_fields(&self, experimental: bool) -> Vec<&'static str> {
        let mut v = vec![];
        let mut c = self.clone();
        // test field by field against a valid background
        let d = CfgSpec::default();
        macro_rules! probe {
            ($f:ident) => {{
                let mut t = d.clone();
                t.$f = c.$f.clone();
                if let Err(n) = t.in_documented_range(experimental) {
                    v.push(n);
                }
            }};
        }
        probe!(block_size);
        probe!(fixed_max_order);
        probe!(order_sel);
        probe!(lpc_order);
        probe!(quant_precision);
        probe!(use_direct_mse);
        probe!(mae_steps);
        probe!(window);
        probe!(max_parameter);
        c.block_size = 0;
        v
    }

    /// Does an error path designate this field?  The path starts with the dotted position of the enclosing
    /// structure and ends with the field name (an enum-variant component may sit in between).
    pub fn path_names(path: &str, leaf: &str) -> bool {
        let full = Self::full_path(leaf);
        if path == full {
            return true;
        }
        let comps: Vec<&str> = full.split('.').collect();
        let got: Vec<&str> = path.split('.').collect();
        // the documented components in order, with at most one extra component (variant name) anywhere
        if got.len() != comps.len() + 1 {
            return false;
        }
        (0..got.len()).any(|skip| got.iter().enumerate().filter(|(i, _)| *i != skip).map(|(_, c)| *c).eq(comps.iter().copied()))
    }

    /// Dotted path of a field (as named by `in_documented_range`) in the public configuration structure.
    pub fn full_path(leaf: &str) -> &'static str {
        match leaf {
            "block_size" => "block_size",
            "max_order" => "subframe_coding.fixed.max_order",
            "partitions" => "subframe_coding.fixed.order_sel.partitions",
            "lpc_order" => "subframe_coding.qlpc.lpc_order",
            "quant_precision" => "subframe_coding.qlpc.quant_precision",
            "use_direct_mse" => "subframe_coding.qlpc.use_direct_mse",
            "mae_optimization_steps" => "subframe_coding.qlpc.mae_optimization_steps",
            "alpha" => "subframe_coding.qlpc.window.alpha",
            "max_parameter" => "subframe_coding.prc.max_parameter",
            _ => "?",
        }
    }

    pub fn window_alpha(&self) -> Option<f32> {
        self.window.map(f32::from_bits)
    }
}

pub const TABLE_BLOCK_SIZES: [usize; 13] = [192, 576, 1152, 2304, 4608, 256, 512, 1024, 2048, 4096, 8192, 16384, 32768];

/// Block sizes: dense around code-table boundaries.
pub fn block_size_strategy(max: usize) -> BoxedStrategy<usize> {
    let max = max.clamp(32, 32767);
    let table: Vec<usize> = {
        let mut v = vec![];
        for t in TABLE_BLOCK_SIZES {
            for d in [-1i64, 0, 1] {
                let x = t as i64 + d;
                if x >= 32 && x as usize <= max {
                    v.push(x as usize);
                }
            }
        }
        for x in [32usize, 33, 63, 64, 65, 127, 128, 129, 255, 257, 16, 17] {
            if x >= 32 && x <= max {
                v.push(x);
            }
        }
        v.sort();
        v.dedup();
        v
    };
    let hi = max.min(4608);
    prop_oneof![
        3 => 32usize..=96.min(max),
        4 => proptest::sample::select(table),
        4 => 32usize..=hi,
        1 => 32usize..=max,
    ]
    .boxed()
}

pub fn alpha_bits_strategy() -> BoxedStrategy<u32> {
    let special: Vec<u32> = vec![
        0.0f32.to_bits(),
        1.0f32.to_bits(),
        0.4f32.to_bits(),
        0.5f32.to_bits(),
        0.4f32.to_bits() + 1,
        0.4f32.to_bits() - 1,
        0.5f32.to_bits() + 1,
        0.5f32.to_bits() - 1,
        1.0f32.to_bits() - 1,
        1, // smallest positive subnormal
        1e-6f32.to_bits(),
        1e-3f32.to_bits(),
        (1.0f32 / 65535.0).to_bits(),
    ];
    prop_oneof![
        2 => proptest::sample::select(special),
        3 => (0u32..=1_000_000).prop_map(|x| (x as f32 / 1_000_000.0).to_bits()),
    ]
    .boxed()
}

#[derive(Clone, Copy, Debug)]
pub struct CfgOpts {
    pub max_block: usize,
    pub allow_multithread: bool,
    pub experimental: bool,
}

impl Default for CfgOpts {
    fn default() -> Self {
        Self { max_block: 32767, allow_multithread: false, experimental: cfg!(feature = "experimental") }
    }
}

/// Valid configurations (everything `Verify` documents as accepted).
pub fn cfg_strategy(o: CfgOpts) -> BoxedStrategy<CfgSpec> {
    let mt = if o.allow_multithread { prop_oneof![2 => Just(false), 1 => Just(true)].boxed() } else { Just(false).boxed() };
    let workers = prop_oneof![
        2 => Just(None),
        6 => (1usize..=8).prop_map(Some),
        1 => prop_oneof![Just(16usize), Just(33usize)].prop_map(Some),
    ];
    let b3 = || prop_oneof![3 => Just(true), 1 => Just(false)];
    let order_sel = prop_oneof![
        2 => Just(None),
        2 => (1usize..=64).prop_map(Some),
        1 => prop_oneof![Just(1usize), Just(2), Just(16), Just(64)].prop_map(Some),
    ];
    let window = prop_oneof![1 => Just(None), 3 => alpha_bits_strategy().prop_map(Some)];
    let maxp = prop_oneof![5 => Just(14usize), 5 => 0usize..=14];
    let exp = if o.experimental {
        (any::<bool>(), 0usize..=3).boxed()
    } else {
        (Just(false), Just(0usize)).boxed()
    };
    (
        (block_size_strategy(o.max_block), mt, workers, b3(), b3(), b3()),
        (b3(), b3(), b3(), 0usize..=4, order_sel),
        (1usize..=24, prop_oneof![3 => 1usize..=15, 2 => Just(15usize), 1 => Just(1usize)], exp, window, maxp),
    )
        .prop_map(|((block_size, multithread, workers, ls, rs, ms), (uc, uf, ul, fmo, os), (lo, qp, (dm, mae), w, mp))| CfgSpec {
            block_size,
            multithread,
            workers,
            ls,
            rs,
            ms,
            use_constant: uc,
            use_fixed: uf,
            use_lpc: ul,
            fixed_max_order: fmo,
            order_sel: os,
            lpc_order: lo,
            quant_precision: qp,
            use_direct_mse: dm,
            mae_steps: mae,
            window: w,
            max_parameter: mp,
            cfg_block: None,
        })
        .boxed()
}

/// With probability ~0.3 the configuration's own `block_size` field differs from the block-size
/// argument the case passes to the entry points (any valid value).
pub fn with_cfg_block(s: BoxedStrategy<CfgSpec>) -> BoxedStrategy<CfgSpec> {
    (s, prop_oneof![7 => Just(None), 3 => block_size_strategy(32767).prop_map(Some)])
        .prop_map(|(mut c, b)| {
            c.cfg_block = b.filter(|x| *x != c.block_size);
            c
        })
        .boxed()
}

// ------------------------------------------------------------------------------------------
// inputs
// ------------------------------------------------------------------------------------------

pub const WIDTHS: [usize; 5] = [8, 12, 16, 20, 24];

pub const SIG_CLASSES: [&str; 17] = [
    "silence", "dc", "noise", "sine", "sine+noise", "ar", "walk", "impulses", "alternating", "step", "burst", "periodic", "saw", "minmax", "ar2", "tiny", "heavy",
];

#[derive(Clone, Debug, PartialEq, Serialize, Deserialize)]
pub struct Seg {
    pub class: u8,
    /// amplitude class: 0 => 1, 1 => small, 2 => 2^k, 3 => half scale, 4 => full scale
    pub amp: u8,
    pub p: u32,
}

#[derive(Clone, Debug, PartialEq, Serialize, Deserialize)]
pub struct ChanSpec {
    /// 1..=3 segments of equal length ("per-frame class switches").
    pub segs: Vec<Seg>,
}

#[derive(Clone, Debug, PartialEq, Serialize, Deserialize)]
pub struct InputSpec {
    pub channels: usize,
    pub bps: usize,
    pub rate: usize,
    pub len: usize,
    pub chans: Vec<ChanSpec>,
    /// stereo relation (applies to channel 1 relative to 0 when channels >= 2):
    /// 0 independent, 1 identical, 2 negated, 3 L + tiny noise, 4 one channel silent,
    /// 5 L + non-zero constant (constant side channel), 6 constant - L (constant mid channel),
    /// 7 L delayed by one sample, 8 L + constant in the first half only (side constant per frame at best)
    pub rel: u8,
    pub seed: u64,
    /// explicit interleaved samples (fuzz-produced cases); when set, `chans` / `rel` / `seed` are ignored
    #[serde(default, skip_serializing_if = "Option::is_none")]
    pub explicit: Option<Vec<i32>>,
}

fn amp_value(amp: u8, p: u32, bps: usize) -> i64 {
    let max = (1i64 << (bps - 1)) - 1;
    match amp {
        0 => 1,
        1 => 2 + (p as i64 % 30),
        2 => 1i64 << (p as usize % (bps - 1)),
        3 => max / 2,
        _ => max,
    }
}

fn gen_segment(out: &mut [i64], seg: &Seg, bps: usize, rng: &mut Sm64, t0: usize) {
    let n = out.len();
    if n == 0 {
        return;
    }
    let max = (1i64 << (bps - 1)) - 1;
    let min = -(1i64 << (bps - 1));
    let a = amp_value(seg.amp, seg.p, bps).clamp(1, max);
    let p = seg.p;
    match seg.class % SIG_CLASSES.len() as u8 {
        0 => {}
        1 => {
            let c = match p % 4 {
                0 => max,
                1 => min,
                2 => a,
                _ => -a,
            };
            out.fill(c);
        }
        2 => {
            for x in out.iter_mut() {
                *x = rng.range_i64(-a, a);
            }
        }
        3 | 4 => {
            let period = 2.0 + (p % 400) as f64 / 2.0;
            let ph = (p % 628) as f64 / 100.0;
            let na = if seg.class % SIG_CLASSES.len() as u8 == 4 { (a / 16).max(1) } else { 0 };
            for (t, x) in out.iter_mut().enumerate() {
                let s = (a - na) as f64 * (ph + 2.0 * std::f64::consts::PI * (t0 + t) as f64 / period).sin();
                *x = s as i64 + if na > 0 { rng.range_i64(-na, na) } else { 0 };
            }
        }
        5 => {
            let r = 0.5 + (p % 499) as f64 / 1000.0;
            let mut s = 0f64;
            for x in out.iter_mut() {
                s = r * s + (rng.unit() * 2.0 - 1.0) * a as f64 * (1.0 - r);
                *x = s as i64;
            }
        }
        6 => {
            let step = (a / 64).max(1);
            let mut s = 0i64;
            for x in out.iter_mut() {
                s = (s + rng.range_i64(-step, step)).clamp(min, max);
                *x = s;
            }
        }
        7 => {
            let k = 1 + p as usize % 6;
            for _ in 0..k {
                let i = rng.below(n as u64) as usize;
                out[i] = if rng.below(2) == 0 { max } else { min };
            }
        }
        8 => {
            let (hi, lo) = if p % 2 == 0 { (max, min) } else { (a, -a) };
            for (t, x) in out.iter_mut().enumerate() {
                *x = if (t0 + t) % 2 == 0 { hi } else { lo };
            }
        }
        9 => {
            let st = rng.below(n as u64) as usize;
            for (t, x) in out.iter_mut().enumerate() {
                *x = if t < st { min } else { max };
            }
        }
        10 => {
            // loud burst next to near-silence
            let bl = 64 + p as usize % 200;
            let b0 = rng.below(n as u64) as usize;
            let quiet = p % 3;
            for (t, x) in out.iter_mut().enumerate() {
                *x = if t >= b0 && t < b0 + bl {
                    if rng.below(2) == 0 { max } else { min }
                } else {
                    match quiet {
                        0 => 0,
                        1 => rng.range_i64(-1, 1),
                        _ => rng.range_i64(-3, 3),
                    }
                };
            }
        }
        11 => {
            let per = 1 + p as usize % 24;
            let pat: Vec<i64> = (0..per).map(|_| rng.range_i64(-a, a)).collect();
            for (t, x) in out.iter_mut().enumerate() {
                *x = pat[(t0 + t) % per];
            }
        }
        12 => {
            let step = 1 + a / (8 + (p % 57) as i64);
            for (t, x) in out.iter_mut().enumerate() {
                *x = (((t0 + t) as i64 * step) % (2 * a + 1)) - a;
            }
        }
        13 => {
            for x in out.iter_mut() {
                *x = if rng.below(2) == 0 { max } else { min };
            }
        }
        14 => {
            // AR(2), resonant
            let r = 0.9 + (p % 99) as f64 / 1000.0;
            let th = 0.05 + (p % 300) as f64 / 100.0;
            let (c1, c2) = (2.0 * r * th.cos(), -r * r);
            let (mut s1, mut s2) = (0f64, 0f64);
            let g = a as f64 * (1.0 - r);
            for x in out.iter_mut() {
                let s = c1 * s1 + c2 * s2 + (rng.unit() * 2.0 - 1.0) * g;
                s2 = s1;
                s1 = s;
                *x = s as i64;
            }
        }
        15 => {
            for x in out.iter_mut() {
                *x = rng.range_i64(-1, 1);
            }
        }
        _ => {
            // heavy tailed: mostly small, occasionally huge
            for x in out.iter_mut() {
                let u = rng.unit();
                let m = if u < 0.9 { 3.0 } else { a as f64 * rng.unit().powi(3) };
                *x = ((rng.unit() * 2.0 - 1.0) * m) as i64;
            }
        }
    }
    for x in out.iter_mut() {
        *x = (*x).clamp(min, max);
    }
}

impl InputSpec {
    pub fn channel(&self, c: usize) -> Vec<i32> {
        let mut rng = Sm64::new(crate::util::mix(self.seed, c as u64));
        let mut v = vec![0i64; self.len];
        let spec = &self.chans[c.min(self.chans.len() - 1)];
        let ns = spec.segs.len().max(1);
        let mut a = 0usize;
        for (i, seg) in spec.segs.iter().enumerate() {
            let b = if i + 1 == ns { self.len } else { self.len * (i + 1) / ns };
            gen_segment(&mut v[a..b], seg, self.bps, &mut rng, a);
            a = b;
        }
        v.into_iter().map(|x| x as i32).collect()
    }

    /// Interleaved samples, every value inside the declared width.
    pub fn samples(&self) -> Vec<i32> {
        if let Some(e) = &self.explicit {
            let lo = -(1i64 << (self.bps - 1));
            let hi = (1i64 << (self.bps - 1)) - 1;
            return e.iter().take(self.len * self.channels).map(|x| (*x as i64).clamp(lo, hi) as i32).collect();
        }
        let lo = -(1i64 << (self.bps - 1));
        let hi = (1i64 << (self.bps - 1)) - 1;
        let mut chans: Vec<Vec<i32>> = (0..self.channels).map(|c| self.channel(c)).collect();
        if self.channels >= 2 {
            let mut rng = Sm64::new(crate::util::mix(self.seed, 0xABCD));
            match self.rel {
                1 => chans[1] = chans[0].clone(),
                2 => chans[1] = chans[0].iter().map(|x| (-(*x as i64)).clamp(lo, hi) as i32).collect(),
                3 => {
                    let c0 = chans[0].clone();
                    for (t, x) in chans[1].iter_mut().enumerate() {
                        *x = (c0[t] as i64 + rng.range_i64(-2, 2)).clamp(lo, hi) as i32;
                    }
                }
                4 => chans[1].iter_mut().for_each(|x| *x = 0),
                5 | 6 | 8 => {
                    let c0 = chans[0].clone();
                    let (mn, mx) = c0.iter().fold((0i64, 0i64), |(a, b), x| (a.min(*x as i64), b.max(*x as i64)));
                    let mag = [1i64, 2, 3, 14, 255, 1 << (self.bps - 2)][(self.seed % 6) as usize];
                    let n = c0.len();
                    for (t, x) in chans[1].iter_mut().enumerate() {
                        let l = c0[t] as i64;
                        *x = match self.rel {
                            // an offset that keeps every sample inside the width when one exists (exactly constant side)
                            5 => if mx + mag <= hi { l + mag } else if mn - mag >= lo { l - mag } else { (l + mag).clamp(lo, hi) },
                            6 => (mag - l).clamp(lo, hi),
                            _ => if t < n / 2 { (l + mag).clamp(lo, hi) } else { l },
                        } as i32;
                    }
                }
                7 => {
                    let c0 = chans[0].clone();
                    for (t, x) in chans[1].iter_mut().enumerate() {
                        *x = if t == 0 { 0 } else { c0[t - 1] };
                    }
                }
                _ => {}
            }
        }
        let mut out = vec![0i32; self.len * self.channels];
        for t in 0..self.len {
            for c in 0..self.channels {
                out[t * self.channels + c] = chans[c][t];
            }
        }
        out
    }

    pub fn describe(&self) -> String {
        let cls: Vec<String> = self
            .chans
            .iter()
            .take(self.channels)
            .map(|c| c.segs.iter().map(|s| SIG_CLASSES[s.class as usize % SIG_CLASSES.len()]).collect::<Vec<_>>().join("/"))
            .collect();
        if self.explicit.is_some() {
            return format!("ch={} bps={} rate={} len={} [explicit samples]", self.channels, self.bps, self.rate, self.len);
        }
        format!("ch={} bps={} rate={} len={} rel={} [{}]", self.channels, self.bps, self.rate, self.len, self.rel, cls.join(","))
    }
}

pub fn rate_strategy() -> BoxedStrategy<usize> {
    let named = vec![88200usize, 8000, 16000, 22050, 24000, 32000, 44100, 48000, 96000];
    prop_oneof![
        4 => proptest::sample::select(named),
        2 => (1usize..=96).prop_map(|k| k * 1000),
        2 => (1usize..=9600).prop_map(|k| k * 10),
        2 => 1usize..=65535,
        2 => 65536usize..=96000,
        1 => proptest::sample::select(vec![1usize, 95999, 65535, 65536, 65540, 96000, 655, 255000 % 96001, 7, 9999]),
    ]
    .boxed()
}

pub fn seg_strategy(weights_heavy: bool) -> BoxedStrategy<Seg> {
    let class = if weights_heavy {
        prop_oneof![
            4 => Just(2u8),
            4 => Just(10u8),
            3 => Just(16u8),
            2 => Just(13u8),
            2 => Just(8u8),
            2 => Just(7u8),
            4 => 0u8..SIG_CLASSES.len() as u8,
        ]
        .boxed()
    } else {
        (0u8..SIG_CLASSES.len() as u8).boxed()
    };
    (class, prop_oneof![1 => Just(0u8), 2 => Just(1u8), 2 => Just(2u8), 2 => Just(3u8), 3 => Just(4u8)], any::<u32>())
        .prop_map(|(class, amp, p)| Seg { class, amp, p })
        .boxed()
}

pub fn chan_strategy(heavy: bool) -> BoxedStrategy<ChanSpec> {
    prop_oneof![
        4 => proptest::collection::vec(seg_strategy(heavy), 1..=1),
        1 => proptest::collection::vec(seg_strategy(heavy), 2..=3),
    ]
    .prop_map(|segs| ChanSpec { segs })
    .boxed()
}

/// Length relative to the block size: covers 0, tiny, < block, exact multiples, every residue class.
pub fn len_strategy(block: usize, budget: usize) -> BoxedStrategy<usize> {
    let max_frames = (budget / block).clamp(1, 6);
    let cap = budget.max(block + 20);
    prop_oneof![
        1 => Just(0usize),
        2 => 1usize..=15,
        2 => 16usize..block,
        2 => (1usize..=max_frames).prop_map(move |k| k * block),
        5 => (0usize..=max_frames, 1usize..block).prop_map(move |(k, r)| (k * block + r).min(cap)),
        3 => (1usize..=max_frames, 1usize..=15).prop_map(move |(k, r)| (k * block + r).min(cap)),
        1 => (1usize..=max_frames, 1usize..=17).prop_map(move |(k, r)| (k * block).saturating_sub(r).min(cap)),
    ]
    .boxed()
}

#[derive(Clone, Copy, Debug)]
pub struct InOpts {
    /// cap on len * channels
    pub budget: usize,
    pub heavy: bool,
    pub wide_bias: bool,
    pub max_channels: usize,
}

impl Default for InOpts {
    fn default() -> Self {
        Self { budget: 24_000, heavy: false, wide_bias: false, max_channels: 8 }
    }
}

pub fn input_strategy(block: usize, o: InOpts) -> BoxedStrategy<InputSpec> {
    let channels = prop_oneof![4 => Just(2usize), 2 => Just(1usize), 4 => 1usize..=o.max_channels.max(1)].prop_map(move |c| c.min(o.max_channels.max(1)));
    let bps = if o.wide_bias {
        prop_oneof![1 => Just(8usize), 1 => Just(12usize), 2 => Just(16usize), 3 => Just(20usize), 4 => Just(24usize)].boxed()
    } else {
        proptest::sample::select(WIDTHS.to_vec()).boxed()
    };
    (channels, bps, rate_strategy(), any::<u64>(), 0u8..=8)
        .prop_flat_map(move |(channels, bps, rate, seed, rel)| {
            let per_ch = (o.budget / channels).max(40);
            (
                len_strategy(block, per_ch),
                proptest::collection::vec(chan_strategy(o.heavy), channels..=channels),
            )
                .prop_map(move |(len, chans)| InputSpec { channels, bps, rate, len, chans, rel, seed, explicit: None })
        })
        .boxed()
}

/// (config, input) pairs with the block size shared.
pub fn cfg_input_strategy(co: CfgOpts, io: InOpts) -> BoxedStrategy<(CfgSpec, InputSpec)> {
    with_cfg_block(cfg_strategy(co))
        .prop_flat_map(move |cfg| {
            let b = cfg.block_size;
            (Just(cfg), input_strategy(b, io))
        })
        .boxed()
}

/// Inputs that stress the LPC path: full-scale alternating / periodic / two-valued / stepping
/// content (ill-conditioned autocorrelation, huge coefficients), often next to near-silence.
pub fn lpc_stress_input_strategy(block: usize) -> BoxedStrategy<InputSpec> {
    let seg = || {
        (
            prop_oneof![4 => Just(8u8), 2 => Just(11u8), 2 => Just(13u8), 1 => Just(9u8), 1 => Just(7u8), 1 => Just(10u8), 1 => Just(3u8), 1 => Just(12u8), 1 => Just(15u8), 1 => Just(0u8)],
            prop_oneof![6 => Just(4u8), 2 => Just(3u8), 1 => Just(2u8), 1 => Just(0u8)],
            any::<u32>(),
        )
            .prop_map(|(class, amp, p)| Seg { class, amp, p })
    };
    let chan = move || proptest::collection::vec(seg(), 1..=3).prop_map(|segs| ChanSpec { segs });
    (
        prop_oneof![3 => Just(1usize), 3 => Just(2usize), 1 => Just(3usize)],
        prop_oneof![1 => Just(8usize), 1 => Just(12usize), 2 => Just(16usize), 3 => Just(20usize), 5 => Just(24usize)],
        rate_strategy(),
        any::<u64>(),
        0u8..=8,
    )
        .prop_flat_map(move |(channels, bps, rate, seed, rel)| {
            (len_strategy(block, (16_000 / channels).max(block)), proptest::collection::vec(chan(), channels..=channels))
                .prop_map(move |(len, chans)| InputSpec { channels, bps, rate, len, chans, rel, seed, explicit: None })
        })
        .boxed()
}

pub fn lpc_stress_strategy() -> BoxedStrategy<(CfgSpec, InputSpec)> {
    cfg_strategy(CfgOpts { max_block: 4608, ..Default::default() })
        .prop_flat_map(|mut cfg| {
            cfg.use_lpc = true;
            let b = cfg.block_size.max(64);
            cfg.block_size = b;
            (Just(cfg), lpc_stress_input_strategy(b))
        })
        .boxed()
}
