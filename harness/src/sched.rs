//! Deterministic cooperative scheduler for par mode, driven through the repo's
//! `verif_hook` (compiled with `--cfg flacenc_verif`).
//!
//! Invariant: at most one registered thread runs between two hook points; all
//! other registered threads are parked inside a hook callback. The choice of the
//! next thread is a generated value, so a schedule replays deterministically and
//! "every live thread is blocked" is detected exactly (no wall-clock timeout).

use flacenc::verif_hook::{self, Hook, Obj, Op, Role};
use std::collections::HashMap;
use std::sync::{Arc, Condvar, Mutex};
use std::thread::ThreadId;
use std::time::Duration;

#[derive(Clone, Copy, Debug, PartialEq, Eq)]
pub enum TState {
    Running,
    Parked,
    Ended,
}

#[derive(Debug)]
pub struct T {
    pub idx: Option<usize>,
    pub role: String,
    pub state: TState,
    pub op: Option<(Op, Obj)>,
    pub blocked: bool,
    pub prio: i64,
    /// OS thread id (for /proc/self/task/<tid>/syscall), 0 if unknown
    pub tid: i32,
}

fn gettid() -> i32 {
    unsafe { libc::syscall(libc::SYS_gettid) as i32 }
}

/// True if the thread is inside an UNTIMED futex wait (mutex / condvar / channel park without timeout).
fn in_untimed_futex_wait(tid: i32) -> bool {
    let Ok(s) = std::fs::read_to_string(format!("/proc/self/task/{tid}/syscall")) else { return false };
    let f: Vec<&str> = s.split_whitespace().collect();
    if f.len() < 5 || f[0] != "202" {
        return false;
    }
    let hex = |x: &str| u64::from_str_radix(x.trim_start_matches("0x"), 16).unwrap_or(u64::MAX);
    let op = hex(f[2]) & 0x7f;
    (op == 0 || op == 9) && hex(f[4]) == 0
}

#[derive(Clone, Copy, Debug, PartialEq, Eq)]
pub enum Strategy {
    /// uniform random walk over enabled threads
    Uniform,
    /// PCT: random priorities, `d` priority change points
    Pct,
    /// Starvation: threads whose role is the victim (0 = hashing thread, 1 = main/feeder, 2 = workers) run
    /// only when no other thread is enabled; uniform choice inside the preferred set
    Starve(u8),
    /// Hold one worker: the first worker that reaches the lock of the result sink is run only when no other thread is
    /// enabled, so every other frame overtakes its frame (the out-of-order distance grows with the stream length)
    HoldOne,
}

/// How a scheduled run ended abnormally.
#[derive(Clone, Debug)]
pub enum Abort {
    Deadlock(String),
    StepBound,
    SpawnTimeout(String),
}

pub struct State {
    pub threads: HashMap<ThreadId, T>,
    pub next_idx: usize,
    pub current: Option<ThreadId>,
    pub choices: Vec<u8>,
    pub pos: usize,
    pub rng: u64,
    pub steps: usize,
    pub log: Vec<String>,
    pub main: Option<ThreadId>,
    /// frame numbers in the order in which results were pushed
    pub pushes: Vec<usize>,
    pub strategy: Strategy,
    pub change_points: Vec<usize>,
    pub low_prio: i64,
    /// a worker received from the encode queue while the feeder was blocked on the refill queue
    pub feeder_blocked_on_refill: bool,
    pub saw_worker_pop_while_feeder_blocked: bool,
    /// main reached the join of the hashing thread while that thread was still alive
    pub hasher_lagging_at_join: bool,
    pub abort: Option<Abort>,
    pub on_abort: Option<Box<dyn Fn(&State, &Abort) + Send>>,
    /// set by the stall monitor: the schedule is no longer owned, every parked thread polls its own
    /// enabling condition (used to tell a real dead-lock from a stall the serialisation itself caused)
    pub free_run: bool,
    pub monitor_stop: bool,
    /// the worker held back under `Strategy::HoldOne`
    pub held: Option<ThreadId>,
}

pub struct Sched {
    pub st: Mutex<State>,
    cv: Condvar,
}

const STEP_BOUND: usize = 1_000_000;

impl State {
    fn rnd(&mut self) -> u64 {
        if self.pos < self.choices.len() {
            let c = self.choices[self.pos] as u64;
            self.pos += 1;
            // spread a byte over the range used by callers (callers take `% n` with small n)
            c
        } else {
            self.rng = self.rng.wrapping_mul(6364136223846793005).wrapping_add(1442695040888963407);
            self.rng >> 33
        }
    }

    /// Picks the next candidate among parked, indexed, non-blocked threads.
    fn choose(&mut self) -> Option<ThreadId> {
        let mut cands: Vec<(usize, ThreadId, i64)> = self
            .threads
            .iter()
            .filter(|(_, t)| t.state == TState::Parked && !t.blocked && t.idx.is_some())
            .map(|(id, t)| (t.idx.unwrap(), *id, t.prio))
            .collect();
        if cands.is_empty() {
            return None;
        }
        cands.sort_by_key(|c| c.0);
        match self.strategy {
            Strategy::Uniform => {
                let k = (self.rnd() % cands.len() as u64) as usize;
                Some(cands[k].1)
            }
            Strategy::Pct => {
                let best = cands.iter().max_by_key(|c| (c.2, std::cmp::Reverse(c.0))).unwrap();
                Some(best.1)
            }
            Strategy::HoldOne => {
                if self.held.is_none() {
                    self.held = cands.iter().map(|c| c.1).find(|id| self.threads.get(id).map_or(false, |t| t.role == "Worker" && matches!(t.op, Some((Op::Lock, Obj::ResultSink(_))))));
                }
                let preferred: Vec<ThreadId> = cands.iter().map(|c| c.1).filter(|id| Some(*id) != self.held).collect();
                let pool: Vec<ThreadId> = if preferred.is_empty() { cands.iter().map(|c| c.1).collect() } else { preferred };
                let k = (self.rnd() % pool.len() as u64) as usize;
                Some(pool[k])
            }
            Strategy::Starve(victim) => {
                let vrole = ["Hasher", "main", "Worker"][(victim % 3) as usize];
                let preferred: Vec<ThreadId> = cands.iter().filter(|c| self.threads.get(&c.1).map_or(true, |t| t.role != vrole)).map(|c| c.1).collect();
                let pool: Vec<ThreadId> = if preferred.is_empty() { cands.iter().map(|c| c.1).collect() } else { preferred };
                let k = (self.rnd() % pool.len() as u64) as usize;
                Some(pool[k])
            }
        }
    }

    pub fn alive(&self) -> Vec<String> {
        let mut v: Vec<(usize, String)> = self
            .threads
            .values()
            .filter(|t| t.state != TState::Ended)
            .map(|t| (t.idx.unwrap_or(999), format!("{}#{}@{}", t.role, t.idx.map_or("?".into(), |i| i.to_string()), t.op.map_or("-".into(), |(o, b)| format!("{o:?}({})", obj_name(&b))))))
            .collect();
        v.sort();
        v.into_iter().map(|x| x.1).collect()
    }

    pub fn out_of_order_distance(&self) -> usize {
        let mut d = 0;
        let mut maxseen = 0usize;
        for (i, &p) in self.pushes.iter().enumerate() {
            if i > 0 && p < maxseen {
                d = d.max(maxseen - p);
            }
            maxseen = maxseen.max(p);
        }
        d
    }
}

pub fn obj_name(o: &Obj) -> String {
    match o {
        Obj::Thread(_) => "Thread".into(),
        other => format!("{other:?}"),
    }
}

impl Sched {
    pub fn new(strategy: Strategy, choices: Vec<u8>, seed: u64, pct_depth: usize) -> Arc<Self> {
        let mut rng = seed | 1;
        let mut change_points = vec![];
        for _ in 0..pct_depth {
            rng = rng.wrapping_mul(6364136223846793005).wrapping_add(1442695040888963407);
            change_points.push(((rng >> 33) % 400) as usize);
        }
        let st = State {
            threads: HashMap::new(),
            next_idx: 0,
            current: None,
            choices,
            pos: 0,
            rng: seed,
            steps: 0,
            log: vec![],
            main: None,
            pushes: vec![],
            strategy,
            change_points,
            low_prio: -1,
            feeder_blocked_on_refill: false,
            saw_worker_pop_while_feeder_blocked: false,
            hasher_lagging_at_join: false,
            abort: None,
            on_abort: None,
            free_run: false,
            monitor_stop: false,
            held: None,
        };
        Arc::new(Self { st: Mutex::new(st), cv: Condvar::new() })
    }

    pub fn register_main(&self) {
        let me = std::thread::current().id();
        let mut st = self.st.lock().unwrap();
        let idx = st.next_idx;
        st.next_idx += 1;
        let prio = (st.rnd() % 1000) as i64 + 1000;
        st.threads.insert(me, T { idx: Some(idx), role: "main".into(), state: TState::Running, op: None, blocked: false, prio, tid: gettid() });
        st.current = Some(me);
        st.main = Some(me);
    }

    /// Terminal: reports through `on_abort` (which normally prints the verdict and exits the process).
    fn abort(&self, st: &mut State, a: Abort) -> ! {
        st.abort = Some(a.clone());
        if let Some(f) = st.on_abort.take() {
            f(st, &a);
        }
        // default: exit; threads of this process may be blocked for ever
        std::process::exit(3);
    }

    fn park_until_enabled(&self, op: Op, obj: Obj, ready: &dyn Fn(&State) -> bool) {
        let me = std::thread::current().id();
        let mut st = self.st.lock().unwrap();
        st.steps += 1;
        if st.steps > STEP_BOUND {
            self.abort(&mut st, Abort::StepBound);
        }
        let was_current = st.current == Some(me);
        {
            if !st.threads.contains_key(&me) {
                let prio = (st.rnd() % 1000) as i64 + 1000;
                st.threads.insert(me, T { idx: None, role: "?".into(), state: TState::Parked, op: None, blocked: false, prio, tid: gettid() });
            }
            let t = st.threads.get_mut(&me).unwrap();
            t.state = TState::Parked;
            t.op = Some((op, obj));
            t.blocked = false;
        }
        if let Obj::ResultSink(n) = obj {
            st.pushes.push(n);
        }
        if let (Op::Join, Obj::Thread(id)) = (op, obj) {
            if st.threads.get(&id).map_or(false, |t| t.role == "Hasher" && t.state != TState::Ended) {
                st.hasher_lagging_at_join = true;
            }
        }
        if was_current {
            // the running thread reached its next point: its previous operation completed,
            // so enabling conditions of others may have changed
            for t in st.threads.values_mut() {
                t.blocked = false;
            }
            // PCT change point: demote the thread that was running
            let step = st.steps;
            if st.strategy == Strategy::Pct && st.change_points.contains(&step) {
                let lp = st.low_prio;
                st.low_prio -= 1;
                if let Some(t) = st.threads.get_mut(&me) {
                    t.prio = lp;
                }
            }
            st.current = st.choose();
            if st.current.is_none() {
                self.abort(&mut st, Abort::Deadlock("no candidate".into()));
            }
        }
        self.cv.notify_all();
        loop {
            while st.current != Some(me) && !st.free_run {
                st = self.cv.wait(st).unwrap();
            }
            if st.free_run && !ready(&st) {
                // schedule no longer owned: poll the enabling condition
                st.threads.get_mut(&me).unwrap().blocked = true;
                let (g, _) = self.cv.wait_timeout(st, Duration::from_millis(20)).unwrap();
                st = g;
                continue;
            }
            if ready(&st) {
                let role;
                {
                    let t = st.threads.get_mut(&me).unwrap();
                    t.state = TState::Running;
                    role = t.role.clone();
                    let line = format!("{}#{} {:?} {}", t.role, t.idx.map_or("?".into(), |i| i.to_string()), op, obj_name(&obj));
                    if st.log.len() < 4000 {
                        st.log.push(line);
                    }
                }
                // bookkeeping for non-triviality rules
                match (op, obj) {
                    (Op::Recv, Obj::RefillQ) => st.feeder_blocked_on_refill = false,
                    (Op::Recv, Obj::EncodeQ) if role == "Worker" => {
                        if st.feeder_blocked_on_refill {
                            st.saw_worker_pop_while_feeder_blocked = true;
                        }
                    }
                    _ => {}
                }
                return;
            }
            {
                let t = st.threads.get_mut(&me).unwrap();
                t.blocked = true;
            }
            if matches!((op, obj), (Op::Recv, Obj::RefillQ)) {
                st.feeder_blocked_on_refill = true;
            }
            st.current = st.choose();
            if st.current.is_none() {
                // every thread at a hook point is blocked; if some thread is still RUNNING (it may be
                // stuck outside the hook points) the stall monitor decides, otherwise this is a dead-lock
                if st.threads.values().any(|t| t.state == TState::Running) {
                    self.cv.notify_all();
                    let (g, _) = self.cv.wait_timeout(st, Duration::from_millis(50)).unwrap();
                    st = g;
                    continue;
                }
                let alive = st.alive();
                self.abort(&mut st, Abort::Deadlock(format!("all live threads blocked: {alive:?}")));
            }
            self.cv.notify_all();
        }
    }

    /// Stall monitor (own thread). The scheduler assumes that code between two hook points never
    /// blocks. If the one running thread sits in an UNTIMED futex wait (a blocking primitive without a
    /// hook) while every other thread is parked by the scheduler, nobody can wake it under the owned
    /// schedule. The monitor then releases the schedule (free-run): if the system makes progress again
    /// the stall was caused by the serialisation (inconclusive); if every live thread stays blocked
    /// (parked with a false enabling condition, or in an untimed futex wait) it is a real dead-lock.
    fn monitor(self: Arc<Self>) {
        let mut last: (Option<ThreadId>, usize) = (None, 0);
        let mut count = 0;
        let mut free_since: Option<(usize, usize)> = None; // (steps at release, samples since)
        loop {
            std::thread::sleep(Duration::from_millis(150));
            let (running, steps, others_parked, free) = {
                let st = self.st.lock().unwrap();
                if st.monitor_stop || st.abort.is_some() {
                    return;
                }
                let running: Vec<(ThreadId, i32)> = st.threads.iter().filter(|(_, t)| t.state == TState::Running).map(|(id, t)| (*id, t.tid)).collect();
                let others_parked = st.threads.values().filter(|t| t.state == TState::Parked).count();
                (running, st.steps, others_parked, st.free_run)
            };
            if !free {
                if running.len() == 1 && others_parked >= 1 && running[0].1 != 0 && in_untimed_futex_wait(running[0].1) {
                    if last == (Some(running[0].0), steps) {
                        count += 1;
                    } else {
                        last = (Some(running[0].0), steps);
                        count = 1;
                    }
                } else {
                    count = 0;
                }
                if count >= 4 {
                    let mut st = self.st.lock().unwrap();
                    if st.steps == steps {
                        st.free_run = true;
                        if st.log.len() < 4000 {
                            st.log.push("MONITOR: running thread is in an untimed futex wait outside the hook points; schedule released".into());
                        }
                        free_since = Some((steps, 0));
                        self.cv.notify_all();
                    }
                    count = 0;
                }
                continue;
            }
            // free-run: does anything move?
            let Some((steps0, n)) = free_since else { continue };
            let all_stuck = {
                let st = self.st.lock().unwrap();
                st.threads.values().filter(|t| t.state != TState::Ended).all(|t| match t.state {
                    TState::Parked => t.blocked,
                    _ => t.tid != 0 && in_untimed_futex_wait(t.tid),
                })
            };
            if steps != steps0 || !all_stuck {
                if steps != steps0 {
                    // progress after the release: the stall was an artefact of the serialisation
                    let mut st = self.st.lock().unwrap();
                    self.abort(&mut st, Abort::SpawnTimeout("a thread blocked on a primitive without a hook point while the scheduler held the others; progress resumed after the schedule was released (scheduler artefact, not judged)".into()));
                }
                free_since = Some((steps0, 0));
                continue;
            }
            free_since = Some((steps0, n + 1));
            if n + 1 >= 6 {
                let mut st = self.st.lock().unwrap();
                let alive = st.alive();
                self.abort(&mut st, Abort::Deadlock(format!("with the schedule released, every live thread stays blocked (parked with a false enabling condition or in an untimed futex wait outside the hook points): {alive:?}")));
            }
        }
    }

    /// Called by main right after the encode call returned (or unwound). Returns the threads that
    /// are still alive at that moment.
    pub fn at_return(&self) -> Vec<String> {
        let me = std::thread::current().id();
        let st = self.st.lock().unwrap();
        let mut v: Vec<(usize, String)> = st
            .threads
            .iter()
            .filter(|(id, t)| **id != me && t.state != TState::Ended)
            .map(|(_, t)| (t.idx.unwrap_or(999), format!("{}#{}@{}", t.role, t.idx.map_or("?".into(), |i| i.to_string()), t.op.map_or("-".into(), |(o, b)| format!("{o:?}({})", obj_name(&b))))))
            .collect();
        v.sort();
        v.into_iter().map(|x| x.1).collect()
    }
}

impl Hook for Sched {
    fn spawned(&self, child: ThreadId, role: Role) {
        let mut st = self.st.lock().unwrap();
        let mut waited = 0;
        while !st.threads.contains_key(&child) {
            let (g, to) = self.cv.wait_timeout(st, Duration::from_millis(100)).unwrap();
            st = g;
            if to.timed_out() {
                waited += 1;
                if waited > 100 {
                    self.abort(&mut st, Abort::SpawnTimeout(format!("{role:?} never reached a scheduling point")));
                }
            }
        }
        let idx = st.next_idx;
        st.next_idx += 1;
        let t = st.threads.get_mut(&child).unwrap();
        t.idx = Some(idx);
        t.role = format!("{role:?}");
    }

    fn before(&self, op: Op, obj: Obj, ready: &dyn Fn() -> bool) {
        let r = |st: &State| match (op, obj) {
            (Op::Join, Obj::Thread(id)) => st.threads.get(&id).map_or(true, |t| t.state == TState::Ended),
            _ => ready(),
        };
        self.park_until_enabled(op, obj, &r);
    }

    fn thread_end(&self) {
        let me = std::thread::current().id();
        let mut st = self.st.lock().unwrap();
        let Some(t) = st.threads.get_mut(&me) else { return };
        t.state = TState::Ended;
        let line = format!("{}#{} END", t.role, t.idx.map_or("?".into(), |i| i.to_string()));
        if st.log.len() < 4000 {
            st.log.push(line);
        }
        if st.current == Some(me) {
            for t in st.threads.values_mut() {
                t.blocked = false;
            }
            st.current = st.choose();
            if st.current.is_none() && st.threads.values().any(|t| t.state == TState::Parked) {
                let alive = st.alive();
                self.abort(&mut st, Abort::Deadlock(format!("after a thread ended: {alive:?}")));
            }
        }
        self.cv.notify_all();
    }
}

pub fn install(s: &Arc<Sched>) {
    verif_hook::set_hook(Some(s.clone() as Arc<dyn Hook>));
    let m = s.clone();
    std::thread::spawn(move || m.monitor());
}

/// Stops the stall monitor of `s` (call when the scheduled run is over).
pub fn stop_monitor(s: &Arc<Sched>) {
    s.st.lock().unwrap().monitor_stop = true;
}

pub fn uninstall() {
    verif_hook::set_hook(None);
}

// ------------------------------------------------------------------------------------------------
// Jitter hook: real OS threads, no serialisation; one role is slowed down at each of its hook points.
// ------------------------------------------------------------------------------------------------

/// Delays the threads of one role (0 = hashing thread, 1 = main/feeder, 2 = workers) by `micros` at every
/// hook point they pass, using the same hook the scheduler uses. Threads run truly concurrently; the
/// delays only bias which thread falls behind (e.g. a hashing thread that lags the feeder by more
/// than the capacity of its queue).
pub struct Jitter {
    victim: u8,
    micros: u64,
    main: ThreadId,
    roles: Mutex<HashMap<ThreadId, Role>>,
}

impl Jitter {
    pub fn new(victim: u8, micros: u64) -> Arc<Self> {
        Arc::new(Self { victim: victim % 3, micros, main: std::thread::current().id(), roles: Mutex::new(HashMap::new()) })
    }
}

impl Hook for Jitter {
    fn spawned(&self, child: ThreadId, role: Role) {
        self.roles.lock().unwrap().insert(child, role);
    }
    fn before(&self, _op: Op, _obj: Obj, _ready: &dyn Fn() -> bool) {
        let me = std::thread::current().id();
        let role = if me == self.main { 1u8 } else { match self.roles.lock().unwrap().get(&me) { Some(Role::Hasher) => 0, Some(Role::Worker) => 2, None => 3 } };
        if role == self.victim {
            std::thread::sleep(std::time::Duration::from_micros(self.micros));
        }
    }
    fn thread_end(&self) {}
}

pub fn install_jitter(j: &Arc<Jitter>) {
    flacenc::verif_hook::set_hook(Some(j.clone() as Arc<dyn Hook>));
}
