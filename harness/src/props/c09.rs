//! C09 No frame is larger than its verbatim encoding.

use super::common::*;
use crate::core::{Ctx, Outcome};
use crate::gen::{CfgOpts, InOpts};
use flacenc::component::BitRepr;

pub fn check(case: &StreamCase) -> Outcome {
    let mut out = Outcome::new(case.fp());
    out.class(format!("bps:{}", case.inp.bps));
    out.class(format!("maxp:{}", case.cfg.max_parameter));
    out.class(if case.cfg.order_sel.is_some() { "ordersel:approxent" } else { "ordersel:bitcount" });
    let samples = case.inp.samples();
    let (stream, _frames) = match encode_case(case, &samples) {
        Ok(x) => x,
        Err(RunErr::Oversized(e)) => {
            out.viol("oversized-stream", format!("{e} for {} (raw PCM {} bytes)", case.inp.describe(), samples.len() * case.inp.bps / 8));
            return out;
        }
        Err(e) => {
            // panics / errors on valid input are C01's (and C07's) business, not this property's
            out.class(format!("skipped:{}", match e { RunErr::Panic(_) => "encode-panic", _ => "encode-error" }));
            return out;
        }
    };
    let (ch, bps) = (case.inp.channels, case.inp.bps);
    let mut total_bound = 42usize;
    let mut near = false;
    for n in 0..stream.frame_count() {
        let f = stream.frame(n).unwrap();
        let bits = f.count_bits();
        let hdr_bits = f.header().count_bits();
        let bs = f.block_size();
        let verb_bits = ch * (8 + bps * bs);
        let bound_bytes = hdr_bits / 8 + (verb_bits + 7) / 8 + 2 + 2 * ch;
        total_bound += bound_bytes;
        let bytes = bits / 8;
        if bytes > bound_bytes {
            out.viol(
                if bits > 64 * (verb_bits + 1024) { "frame-larger-than-verbatim:gross" } else { "frame-larger-than-verbatim" },
                format!(
                    "frame {n}: {bytes} bytes > verbatim bound {bound_bytes} (block {bs}, {ch} ch, {bps} bits; max_parameter {}, order_sel {:?}) input {}",
                    case.cfg.max_parameter,
                    case.cfg.order_sel,
                    case.inp.describe()
                ),
            );
            return out;
        }
        if bytes * 100 >= bound_bytes * 95 {
            near = true;
        }
    }
    // whole stream, measured on the real bytes when it is serialisable
    let limit = crate::enc::sane_bits(samples.len(), bps);
    match crate::util::catch(|| crate::enc::stream_bytes(&stream, limit)) {
        Ok(Ok(b)) => {
            if b.len() > total_bound {
                out.viol("stream-larger-than-raw-plus-overhead", format!("{} bytes > {}", b.len(), total_bound));
                return out;
            }
            // per frame again from the independent decoder's byte ranges
            let tr = crate::oracle::refdec::decode(&b, Some(case.cfg.block_size));
            if tr.fatal.is_none() {
                for (n, f) in tr.frames.iter().enumerate() {
                    let verb_bits = ch * (8 + bps * f.block_size);
                    let bound = f.header_len - 1 + (verb_bits + 7) / 8 + 2 + 2 * ch;
                    if f.end - f.start > bound {
                        out.viol("frame-larger-than-verbatim", format!("frame {n}: {} bytes > {bound} (measured on emitted bytes)", f.end - f.start));
                        return out;
                    }
                }
            }
        }
        Ok(Err(e)) => {
            out.viol("oversized-stream", e);
            return out;
        }
        Err(_p) => {
            out.class("skipped:write-panic");
            return out;
        }
    }
    if near {
        out.class("near-verbatim(>=95%)");
    }
    out.nontrivial = near || case.cfg.max_parameter < 14;
    out
}

pub fn run(ctx: &Ctx) {
    ctx.rule(
        "cases = (valid config re-weighted to small max_parameter / ApproxEnt with few partitions, input re-weighted to 20/24-bit loud noise, heavy-tailed and burst signals); \
         per frame: bytes <= header + ceil(ch*(8+bps*n)/8) + 2 + 2*ch from count_bits before writing and again from emitted byte ranges; \
         non-trivial = some frame within 5% of its verbatim bound, or max_parameter < 14",
    );
    ctx.assume("count_bits is used to refuse serialising absurdly large frames (its exactness is C08)");
    let per = ctx.tier.scale(4000, 8);
    let co = CfgOpts { allow_multithread: false, max_block: 8192, ..Default::default() };
    let io = InOpts { heavy: true, wide_bias: true, ..Default::default() };
    ctx.search("heavy", 16, per, &|| stream_case_strategy(co, io, false).prop_map(lowp), check);
    ctx.search("general", 16, per / 2, &|| stream_case_strategy(co, InOpts::default(), false), check);
    if ctx.tier == crate::core::Tier::Thorough {
        crate::fuzzrun::campaign(ctx, "fz_encode", 8, crate::fuzzrun::runs(30_000), 24_000);
    }
}

use proptest::strategy::Strategy;

/// Re-weights towards restricted Rice parameter ranges.
fn lowp(mut c: StreamCase) -> StreamCase {
    if c.inp.seed % 3 == 0 {
        c.cfg.max_parameter = (c.inp.seed / 3 % 9) as usize;
    }
    if c.inp.seed % 5 == 0 {
        c.cfg.order_sel = Some(1 + (c.inp.seed / 5 % 4) as usize);
    }
    c
}

pub fn replay(path: &str) -> Result<Outcome, String> {
    let (_k, case): (String, StreamCase) = crate::core::load_replay(path)?;
    Ok(check(&case))
}
