//! C14 Integer and packed-byte sample delivery are equivalent.

use super::common::*;
use crate::core::{Ctx, Outcome};
use crate::enc::{self, SrcKind};
use crate::gen::{self, CfgOpts, CfgSpec, InOpts};
use crate::oracle::refdec::{self, FrameCtx};
use crate::util::{catch, fnv, Sm64};
use flacenc::component::StreamInfo;
use flacenc::source::{Context, Fill, FrameBuf};
use proptest::prelude::*;
use serde::{Deserialize, Serialize};

// ------------------------------------------------------------------------------------------
// (a) stream level: IntSource vs ByteSource vs MemSource, single and multi thread
// ------------------------------------------------------------------------------------------

pub fn check_stream(case: &StreamCase) -> Outcome {
    let mut out = Outcome::new(case.fp());
    let samples = case.inp.samples();
    let i = &case.inp;
    out.class(format!("ch:{}", i.channels));
    out.class(format!("bytes-per-sample:{}", (i.bps + 7) / 8));
    out.class(format!("entry:{:?}", case.entry));
    let mut results: Vec<(SrcKind, Vec<u8>)> = vec![];
    for kind in [SrcKind::Int, SrcKind::Bytes, SrcKind::Mem] {
        let mut c = case.clone();
        c.src = kind;
        match encode_case(&c, &samples) {
            Ok((stream, _)) => match catch(|| enc::stream_bytes(&stream, enc::sane_bits(samples.len(), i.bps))) {
                Ok(Ok(b)) => results.push((kind, b)),
                Ok(Err(e)) if e.starts_with("oversized") => {
                    out.class("skipped:oversized(C09)");
                    return out;
                }
                Ok(Err(e)) => {
                    out.viol("write-error", e);
                    return out;
                }
                Err(p) => {
                    out.viol(p.sig(), p.msg);
                    return out;
                }
            },
            Err(RunErr::Oversized(_)) => {
                out.class("skipped:oversized(C09)");
                return out;
            }
            Err(e) => {
                out.viol(format!("encode-failed:src={kind:?}"), format!("{e:?}").chars().take(300).collect::<String>());
                return out;
            }
        }
    }
    for (k, b) in &results[1..] {
        if *b != results[0].1 {
            let at = b.iter().zip(results[0].1.iter()).position(|(x, y)| x != y);
            out.viol(
                format!("stream-differs:{:?}-vs-Int:entry={:?}", k, case.entry),
                format!("{} block {}: {:?} source gives {} bytes, integer source {} bytes, first difference at byte {:?} (bytes 26..42 are the MD5)", i.describe(), case.cfg.block_size, k, b.len(), results[0].1.len(), at),
            );
            return out;
        }
    }
    let short = i.len % case.cfg.block_size != 0 && i.len > case.cfg.block_size;
    let negative = samples.iter().any(|x| *x < 0);
    if short {
        out.class("shorter-final-read");
    }
    out.nontrivial = short && negative;
    out
}

// ------------------------------------------------------------------------------------------
// (b) FrameBuf / Context level: fill histories on one buffer
// ------------------------------------------------------------------------------------------

#[derive(Clone, Debug, Serialize, Deserialize)]
pub struct FillCase {
    pub channels: usize,
    pub bps: usize,
    /// bytes per sample used for the byte fills (>= (bps+7)/8, <= 4)
    pub nbytes: usize,
    pub capacity: usize,
    /// fill lengths (inter-channel samples), each <= capacity
    pub lens: Vec<usize>,
    /// per fill: true = this fill of the "byte" buffer uses bytes, false = integers (mixed histories)
    pub use_bytes: Vec<bool>,
    pub seed: u64,
    /// value class: 0 uniform, 1 extremes only, 2 negative only, 3 small
    pub vclass: u8,
    /// general configuration used in addition to the verbatim-only one
    pub cfg: CfgSpec,
    /// address of the byte slice handed to `fill_le_bytes`, modulo 32 (slices need not be aligned to anything)
    #[serde(default)]
    pub byte_align: u8,
    /// address of the integer slice handed to `fill_interleaved`, in i32 units modulo 8
    #[serde(default)]
    pub int_align: u8,
    /// per fill: value class of that block (255 = `vclass`); 4 = digital silence, 5 = one constant: blocks that a fill
    /// operation might treat specially
    #[serde(default)]
    pub step_class: Vec<u8>,
}

/// A copy of `data` that starts at an address congruent to `off` (in elements) modulo `modulus` elements of
/// a 32-byte line; returns the backing vector and the start index.
fn placed<T: Copy + Default>(data: &[T], off: usize, modulus: usize) -> (Vec<T>, usize) {
    let mut backing = vec![T::default(); data.len() + 2 * modulus];
    let sz = std::mem::size_of::<T>();
    let base = backing.as_ptr() as usize / sz;
    let start = (0..modulus).find(|s| (base + s) % modulus == off % modulus).unwrap_or(0);
    backing[start..start + data.len()].copy_from_slice(data);
    (backing, start)
}

fn values(n: usize, bps: usize, vclass: u8, rng: &mut Sm64) -> Vec<i32> {
    let lo = -(1i64 << (bps - 1));
    let hi = (1i64 << (bps - 1)) - 1;
    (0..n)
        .map(|_| {
            (match vclass % 6 {
                4 => 0,
                5 => (lo + hi) / 3 + 1,
                0 => rng.range_i64(lo, hi),
                1 => {
                    if rng.below(2) == 0 {
                        lo
                    } else {
                        hi
                    }
                }
                2 => rng.range_i64(lo, -1),
                _ => rng.range_i64(-3, 3),
            }) as i32
        })
        .collect()
}

fn to_bytes(v: &[i32], nbytes: usize) -> Vec<u8> {
    let mut b = Vec::with_capacity(v.len() * nbytes);
    for x in v {
        b.extend_from_slice(&x.to_le_bytes()[..nbytes]);
    }
    b
}

fn verbatim_only(block: usize) -> CfgSpec {
    let mut c = CfgSpec::default();
    c.block_size = block;
    c.use_constant = false;
    c.use_fixed = false;
    c.use_lpc = false;
    c.ls = false;
    c.rs = false;
    c.ms = false;
    c
}

fn frame_of(cfg: &flacenc::error::Verified<flacenc::config::Encoder>, fb: &FrameBuf, n: usize, info: &StreamInfo) -> Result<Vec<u8>, String> {
    match catch(|| flacenc::encode_fixed_size_frame(cfg, fb, n, info)) {
        Err(p) => Err(format!("panic:{}", p.sig())),
        Ok(Err(e)) => Err(format!("err:{}", normalise(&format!("{e:?}")).chars().take(80).collect::<String>())),
        Ok(Ok(f)) => enc::frame_bytes(&f, 1 << 26),
    }
}

pub fn check_fill(case: &FillCase) -> Outcome {
    let mut out = Outcome::new(fnv(serde_json::to_string(case).unwrap_or_default().as_bytes()));
    let (ch, bps, cap) = (case.channels, case.bps, case.capacity);
    out.class(format!("ch:{ch}"));
    out.class(format!("fill-bytes-per-sample:{}", case.nbytes));
    out.class(format!("byte-slice-address-mod-4:{}", case.byte_align % 4));
    let Ok(info) = StreamInfo::new(44100, ch, bps) else {
        out.viol("generator-unsound", "StreamInfo::new rejected a valid format");
        return out;
    };
    let vcfg_v = match enc::verified(&verbatim_only(cap)) {
        Ok(v) => v,
        Err(e) => {
            out.viol("generator-unsound", e);
            return out;
        }
    };
    let mut g = case.cfg.clone();
    g.block_size = cap;
    g.multithread = false;
    let vcfg_g = match enc::verified(&g) {
        Ok(v) => v,
        Err(e) => {
            out.viol("generator-unsound", e);
            return out;
        }
    };
    let mk = || FrameBuf::with_size(ch, cap).map_err(|e| format!("{e:?}"));
    let (Ok(mut fb_int), Ok(mut fb_byte)) = (mk(), mk()) else {
        out.viol("generator-unsound", "FrameBuf::with_size rejected valid arguments");
        return out;
    };
    // contexts advance only when the byte width is the context's own (documented precondition)
    let ctx_width_ok = case.nbytes == (bps + 7) / 8;
    let mut ctx_int = Context::new(bps, ch);
    let mut ctx_byte = Context::new(bps, ch);
    let mut rng = Sm64::new(case.seed);
    let mut any_negative = false;
    let mut shorter_after_full = false;
    let mut prev_len = 0usize;
    let fctx = FrameCtx { rate: Some(44100), bps: Some(bps as u32), channels: Some(ch), max_block: None };
    for (step, len) in case.lens.iter().enumerate() {
        let len = (*len).min(cap);
        let cls = match case.step_class.get(step).copied().unwrap_or(255) {
            255 => case.vclass % 4,
            c => c,
        };
        if cls >= 4 {
            out.class(if cls == 4 { "fill:silent-block" } else { "fill:constant-block" });
            if step >= 2 && len > case.lens[step - 1].min(cap) && case.lens[step - 2].min(cap) > case.lens[step - 1].min(cap) {
                out.class("history:long-short-then-longer-silent/constant");
            }
        }
        let v = values(len * ch, bps, cls, &mut rng);
        any_negative |= v.iter().any(|x| *x < 0);
        if prev_len == cap && len < cap && len > 0 {
            shorter_after_full = true;
        }
        prev_len = len;
        let by_bytes = case.use_bytes.get(step).copied().unwrap_or(true);
        let (bytes_backing, b0) = placed(&to_bytes(&v, case.nbytes), case.byte_align as usize, 32);
        let bytes = &bytes_backing[b0..b0 + v.len() * case.nbytes];
        let (v_backing, v0) = placed(&v, case.int_align as usize, 8);
        let v_placed = &v_backing[v0..v0 + v.len()];
        // half of the histories (with the context's own byte width) deliver through the documented pair
        // `(FrameBuf, Context)` / nested `&mut` targets instead of filling buffer and context one by one
        let paired = ctx_width_ok && case.seed % 2 == 0;
        if paired {
            out.class("delivery:through-(FrameBuf,Context)-pairs");
        }
        let r = catch(|| {
            if paired {
                (&mut fb_int, &mut ctx_int).fill_interleaved(v_placed).map_err(|e| format!("{e:?}"))?;
                if by_bytes {
                    (&mut &mut fb_byte, &mut ctx_byte).fill_le_bytes(&bytes, case.nbytes).map_err(|e| format!("{e:?}"))?;
                } else {
                    (&mut fb_byte, &mut &mut ctx_byte).fill_interleaved(&v).map_err(|e| format!("{e:?}"))?;
                }
                return Ok::<(), String>(());
            }
            fb_int.fill_interleaved(v_placed).map_err(|e| format!("{e:?}"))?;
            if by_bytes {
                fb_byte.fill_le_bytes(&bytes, case.nbytes).map_err(|e| format!("{e:?}"))?;
            } else {
                fb_byte.fill_interleaved(&v).map_err(|e| format!("{e:?}"))?;
            }
            if ctx_width_ok {
                ctx_int.fill_interleaved(&v).map_err(|e| format!("{e:?}"))?;
                if by_bytes {
                    ctx_byte.fill_le_bytes(&bytes, case.nbytes).map_err(|e| format!("{e:?}"))?;
                } else {
                    ctx_byte.fill_interleaved(&v).map_err(|e| format!("{e:?}"))?;
                }
            }
            Ok::<(), String>(())
        });
        match r {
            Err(p) => {
                out.viol(format!("fill-{}", normalise(&p.sig())), format!("step {step} (len {len} of capacity {cap}, {ch} ch, {} bytes/sample): {} at {}", case.nbytes, p.msg, p.loc));
                return out;
            }
            Ok(Err(e)) => {
                out.viol("fill-error-on-valid-input", format!("step {step}: {e}"));
                return out;
            }
            Ok(Ok(())) => {}
        }
        if fb_int.filled_size() != len || fb_byte.filled_size() != len {
            out.viol("filled-size", format!("step {step}: filled_size int {} / bytes {} but {len} inter-channel samples were given", fb_int.filled_size(), fb_byte.filled_size()));
            return out;
        }
        if ctx_width_ok
            && (ctx_int.md5_digest() != ctx_byte.md5_digest() || ctx_int.total_samples() != ctx_byte.total_samples() || ctx_int.current_frame_number() != ctx_byte.current_frame_number())
        {
            out.viol(
                "context-differs",
                format!(
                    "step {step} (len {len}): contexts differ: samples {} vs {}, frame number {:?} vs {:?}, md5 equal: {}",
                    ctx_int.total_samples(),
                    ctx_byte.total_samples(),
                    ctx_int.current_frame_number(),
                    ctx_byte.current_frame_number(),
                    ctx_int.md5_digest() == ctx_byte.md5_digest()
                ),
            );
            return out;
        }
        // independent reference: a brand-new buffer filled once with integers
        let mut fb_fresh = FrameBuf::with_size(ch, cap).unwrap();
        let _ = fb_fresh.fill_interleaved(&v);
        for (which, vc) in [("verbatim-only", &vcfg_v), ("general", &vcfg_g)] {
            let a = frame_of(vc, &fb_int, step, &info);
            let b = frame_of(vc, &fb_byte, step, &info);
            let c = frame_of(vc, &fb_fresh, step, &info);
            if a != b || a != c {
                out.viol(
                    format!("frame-differs:{which}:bytes={by_bytes}"),
                    format!("step {step} (len {len} of capacity {cap}, {ch} ch, bps {bps}, {} bytes/sample, lens {:?}): frames encoded from the integer-filled, byte-filled and fresh buffers differ ({} / {} / {})", case.nbytes, case.lens, summarize(&a), summarize(&b), summarize(&c)),
                );
                return out;
            }
            if which == "verbatim-only" && len == 0 {
                // encoding an empty buffer is an invalid-argument case (property C17), not judged here
                out.class("empty-fill:encode-not-judged(C17)");
            } else if which == "verbatim-only" {
                if let Ok(fbytes) = &a {
                    // the frame is a dump of the buffer: decode and compare sample by sample
                    let mut viol = vec![];
                    match refdec::decode_frame(fbytes, 0, &fctx, step as u64, &mut viol) {
                        Ok((ft, chans, _)) => {
                            let ok = ft.block_size == len && (0..len).all(|t| (0..ch).all(|c| chans[c][t] == v[t * ch + c] as i64));
                            if !ok {
                                out.viol("buffer-content-differs-from-input", format!("step {step} (len {len}, {ch} ch, bps {bps}): the verbatim dump of the buffer is not the delivered block"));
                                return out;
                            }
                        }
                        Err(e) => {
                            out.viol(format!("frame-undecodable:{}", normalise(&e)), e);
                            return out;
                        }
                    }
                } else {
                    out.viol("frame-encode-failed-on-valid-buffer", format!("step {step} (len {len}): {a:?}"));
                    return out;
                }
            }
        }
        if len == 0 {
            out.class("fill:empty");
        } else if len < cap {
            out.class("fill:partial");
        } else {
            out.class("fill:full");
        }
    }
    if shorter_after_full {
        out.class("history:full-then-shorter");
    }
    out.weight = case.lens.len().max(1) as u64;
    out.nontrivial = shorter_after_full && any_negative;
    out
}

fn summarize(r: &Result<Vec<u8>, String>) -> String {
    match r {
        Ok(b) => format!("{} bytes #{:08x}", b.len(), fnv(b) as u32),
        Err(e) => e.clone(),
    }
}

pub fn fill_strategy() -> BoxedStrategy<FillCase> {
    let cap = prop_oneof![3 => 32usize..=80, 2 => proptest::sample::select(vec![32usize, 63, 64, 65, 127, 128, 129, 192, 255, 256, 257, 576]), 1 => 32usize..=1200];
    (1usize..=8, proptest::sample::select(gen::WIDTHS.to_vec()), cap, any::<u64>(), 0u8..4, any::<bool>(), gen::cfg_strategy(CfgOpts { max_block: 1200, ..Default::default() }))
        .prop_flat_map(|(channels, bps, capacity, seed, vclass, wide, cfg)| {
            let native = (bps + 7) / 8;
            let nbytes = if wide { 4 } else { native };
            let len = prop_oneof![
                4 => Just(capacity),
                4 => 1usize..=capacity,
                1 => Just(0usize),
                1 => Just(1usize),
                2 => (1usize..=17).prop_map(move |d| capacity.saturating_sub(d).max(1)),
            ];
            (proptest::collection::vec(len, 2..=6), proptest::collection::vec(prop_oneof![4 => Just(true), 1 => Just(false)], 6..=6), prop_oneof![2 => Just(0u8), 3 => 0u8..32], prop_oneof![2 => Just(0u8), 2 => 0u8..8])
                .prop_map(move |(lens, use_bytes, byte_align, int_align)| {
                    // a third of the histories contain silent / constant blocks
                    let mut r = Sm64::new(seed ^ 0xC14);
                    let step_class = (0..lens.len()).map(|_| if seed % 3 == 0 { [255u8, 255, 4, 4, 5][r.below(5) as usize] } else { 255 }).collect();
                    FillCase { channels, bps, nbytes, capacity, lens, use_bytes, seed, vclass, cfg: cfg.clone(), byte_align, int_align, step_class }
                })
        })
        .boxed()
}

pub fn run(ctx: &Ctx) {
    ctx.rule(
        "(a) generated (config, input) with 1..=8 channels and widths 8/12/16/20/24 (1..=3 bytes per sample) encoded from an integer-fill source, a byte-fill source and MemSource, in single-thread, multi-thread and frame-level mode: the streams must be byte-identical; \
         (b) fill histories on ONE FrameBuf (and Context): 2..=6 fills with lengths in {capacity, 1..=capacity, 0, 1, capacity-d} delivered as integers to one buffer and as packed LE bytes (native width, or 4 bytes per sample at FrameBuf level; the byte slice placed at every address modulo 32, the integer slice at every i32 offset modulo 8) to another; after every fill filled_size, the Context (MD5, sample count, frame number) and the frames encoded from both buffers and from a brand-new buffer (verbatim-only and a generated configuration) must agree, and the verbatim dump must decode to the delivered block; \
         non-trivial = (a) a shorter final read and a negative sample, (b) a full block followed by a shorter one and a negative sample; distinct by hash of the case",
    );
    ctx.assume("Source contract: full blocks except the last, one fill call per read; byte fills into a Context use the Context's own byte width (other widths are C17's)");
    let per = ctx.tier.scale(200, 20);
    let co = CfgOpts { allow_multithread: true, max_block: 4608, ..Default::default() };
    ctx.search("stream", 16, per, &|| stream_case_strategy(co, InOpts { budget: 12_000, ..Default::default() }, true), check_stream);
    ctx.search("fill-history", 16, per * 3, &|| fill_strategy(), check_fill);
}

pub fn replay(path: &str) -> Result<Outcome, String> {
    let (kind, case) = crate::core::replay_kind(path)?;
    if kind.starts_with("fill") || case.get("lens").is_some() {
        Ok(check_fill(&serde_json::from_value(case).map_err(|e| e.to_string())?))
    } else {
        Ok(check_stream(&serde_json::from_value(case).map_err(|e| e.to_string())?))
    }
}
