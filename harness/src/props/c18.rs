//! C18 Public component constructors are total and imply serialisability.
//!
//! Every case is one call of a public constructor (plus, for `StreamInfo` / `Stream`, a short
//! history of the public setters that return `Result`). Oracle:
//!   * neither the constructor nor `verify()` panics;
//!   * `Ok(c)`  =>  `c.verify()` is `Ok`, `write` succeeds without panic, the number of bits written
//!     equals `count_bits()`, the matching parser consumes exactly those bits and returns a component
//!     whose field-by-field (serde) representation and re-serialisation are identical.
//! `Err` is always acceptable (this property does not say which arguments are valid).

use crate::core::{Ctx, Outcome};
use crate::oracle::bits::CountSink;
use crate::props::common::normalise;
use crate::util::{catch, fnv, Sm64};
use flacenc::bitsink::ByteSink;
use flacenc::component::{
    parser, BitRepr, ChannelAssignment, Constant, FixedLpc, Frame, FrameHeader, FrameOffset, Lpc, MetadataBlockData, QuantizedParameters, Residual, Stream, StreamInfo, SubFrame, Verbatim,
};
use flacenc::error::Verify;
use proptest::prelude::*;
use serde::{Deserialize, Serialize};
use std::fmt::Debug;

/// Components above this size are only counted (never materialised).
const MATERIALISE_LIMIT_BITS: usize = 1 << 24;

type BE<'a> = nom::error::Error<(&'a [u8], usize)>;
type E<'a> = nom::error::Error<&'a [u8]>;

// ------------------------------------------------------------------------------------------
// argument descriptions (explicit values => replay files are self-contained)
// ------------------------------------------------------------------------------------------

#[derive(Clone, Debug, PartialEq, Serialize, Deserialize)]
pub struct ResArgs {
    pub order: usize,
    pub block: usize,
    pub warmup: usize,
    pub params: Vec<u8>,
    /// lengths of the quotient / remainder vectors
    pub nq: usize,
    pub nr: usize,
    /// 0 zeros, 1 small valid, 2 one huge value, 3 non-zero inside the warm-up, 4 moderate, 5 all u32::MAX/len-safe large
    pub qmode: u8,
    /// 0 zeros, 1 valid (< 2^p of its partition), 2 one value == 2^p, 3 non-zero inside the warm-up, 4 one u32::MAX
    pub rmode: u8,
    pub seed: u64,
}

impl ResArgs {
    fn part_len(&self) -> usize {
        if self.order < 20 {
            (self.block >> self.order).max(1)
        } else {
            self.block.max(1)
        }
    }
    fn param_at(&self, t: usize) -> u32 {
        if self.params.is_empty() {
            return 0;
        }
        let p = (t / self.part_len()).min(self.params.len() - 1);
        self.params[p] as u32
    }
    pub fn quotients(&self) -> Vec<u32> {
        let mut rng = Sm64::new(self.seed ^ 0x51);
        let mut v = vec![0u32; self.nq];
        match self.qmode {
            1 => {
                for (t, x) in v.iter_mut().enumerate() {
                    if t >= self.warmup {
                        *x = rng.below(4) as u32;
                    }
                }
            }
            2 => {
                for (t, x) in v.iter_mut().enumerate() {
                    if t >= self.warmup {
                        *x = rng.below(3) as u32;
                    }
                }
                if self.nq > self.warmup {
                    let i = self.warmup + rng.below((self.nq - self.warmup) as u64) as usize;
                    v[i] = [u32::MAX, u32::MAX / 2, 1 << 24, (1 << 16) + 1][(self.seed % 4) as usize];
                }
            }
            3 => {
                for x in v.iter_mut() {
                    *x = 1 + rng.below(3) as u32;
                }
            }
            4 => {
                for (t, x) in v.iter_mut().enumerate() {
                    if t >= self.warmup {
                        *x = rng.below(120) as u32;
                    }
                }
            }
            5 => {
                for (t, x) in v.iter_mut().enumerate() {
                    if t >= self.warmup {
                        *x = u32::MAX - rng.below(5) as u32;
                    }
                }
            }
            _ => {}
        }
        v
    }
    pub fn remainders(&self) -> Vec<u32> {
        let mut rng = Sm64::new(self.seed ^ 0x77);
        let mut v = vec![0u32; self.nr];
        let valid = |t: usize, rng: &mut Sm64| -> u32 {
            let p = self.param_at(t).min(31);
            rng.below(1u64 << p) as u32
        };
        match self.rmode {
            1 | 2 | 4 => {
                for (t, x) in v.iter_mut().enumerate() {
                    if t >= self.warmup {
                        *x = valid(t, &mut rng);
                    }
                }
                if self.rmode != 1 && self.nr > self.warmup {
                    let i = self.warmup + rng.below((self.nr - self.warmup) as u64) as usize;
                    v[i] = if self.rmode == 2 { 1u32.checked_shl(self.param_at(i)).unwrap_or(u32::MAX) } else { u32::MAX };
                }
            }
            3 => {
                for (t, x) in v.iter_mut().enumerate() {
                    *x = valid(t, &mut rng).max(if t < self.warmup { 1 } else { 0 });
                }
            }
            _ => {}
        }
        v
    }
    pub fn build(&self) -> Result<Residual, String> {
        Residual::new(self.order, self.block, self.warmup, &self.params, &self.quotients(), &self.remainders()).map_err(|e| format!("{e}"))
    }
    /// a consistent residual: block = k * 2^order, warm-up inside the first partition
    pub fn consistent(order: usize, block: usize, warmup: usize, maxp: u8, qmode: u8, seed: u64) -> Self {
        let mut rng = Sm64::new(seed ^ 0x1234);
        let params = (0..(1usize << order)).map(|_| rng.below(maxp as u64 + 1) as u8).collect();
        Self { order, block, warmup, params, nq: block, nr: block, qmode, rmode: 1, seed }
    }
}

#[derive(Clone, Debug, PartialEq, Serialize, Deserialize)]
pub struct QpArgs {
    pub ncoefs: usize,
    pub order: usize,
    pub shift: i8,
    pub precision: usize,
    /// 0 zeros, 1 fits the precision, 2 one value just outside the precision, 3 i16 extremes, 4 exactly the precision's extremes
    pub cmode: u8,
    pub seed: u64,
}

impl QpArgs {
    pub fn coefs(&self) -> Vec<i16> {
        let mut rng = Sm64::new(self.seed ^ 0x99);
        let p = self.precision.clamp(1, 16) as u32;
        let hi: i64 = (1i64 << (p - 1)) - 1;
        let lo: i64 = -(1i64 << (p - 1));
        let mut v: Vec<i16> = (0..self.ncoefs)
            .map(|_| match self.cmode {
                0 => 0,
                3 => {
                    if rng.below(2) == 0 {
                        i16::MAX
                    } else {
                        i16::MIN
                    }
                }
                4 => {
                    if rng.below(2) == 0 {
                        hi as i16
                    } else {
                        lo as i16
                    }
                }
                _ => rng.range_i64(lo, hi) as i16,
            })
            .collect();
        if self.cmode == 2 && !v.is_empty() {
            let i = rng.below(v.len() as u64) as usize;
            v[i] = if rng.below(2) == 0 { (hi + 1).min(i16::MAX as i64) as i16 } else { (lo - 1).max(i16::MIN as i64) as i16 };
        }
        v
    }
    pub fn build(&self) -> Result<QuantizedParameters, String> {
        QuantizedParameters::new(&self.coefs(), self.order, self.shift, self.precision).map_err(|e| format!("{e}"))
    }
}

#[derive(Clone, Debug, PartialEq, Serialize, Deserialize)]
pub struct WarmArgs {
    pub len: usize,
    /// 0 zeros, 1 inside the width, 2 one value just outside, 3 extremes of the width
    pub mode: u8,
    pub seed: u64,
}

fn width_bounds(bps: usize) -> (i64, i64) {
    let b = bps.clamp(1, 32) as u32;
    (-(1i64 << (b - 1)), (1i64 << (b - 1)) - 1)
}

impl WarmArgs {
    pub fn values(&self, bps: usize) -> Vec<i32> {
        let (lo, hi) = width_bounds(bps);
        let mut rng = Sm64::new(self.seed ^ 0x3131);
        let mut v: Vec<i32> = (0..self.len)
            .map(|_| match self.mode {
                0 => 0,
                3 => (if rng.below(2) == 0 { lo } else { hi }) as i32,
                _ => rng.range_i64(lo, hi) as i32,
            })
            .collect();
        if self.mode == 2 && !v.is_empty() {
            let i = rng.below(v.len() as u64) as usize;
            v[i] = if rng.below(2) == 0 { (hi + 1).min(i32::MAX as i64) as i32 } else { (lo - 1).max(i32::MIN as i64) as i32 };
        }
        v
    }
}

#[derive(Clone, Debug, PartialEq, Serialize, Deserialize)]
pub enum SubArgs {
    Constant { block: usize, dc: i32, bps: usize },
    Verbatim { len: usize, bps: usize, mode: u8, seed: u64 },
    Fixed { warm: WarmArgs, res: ResArgs, bps: usize },
    Lpc { warm: WarmArgs, qp: QpArgs, res: ResArgs, bps: usize },
}

impl SubArgs {
    fn kind(&self) -> &'static str {
        match self {
            SubArgs::Constant { .. } => "Constant::new",
            SubArgs::Verbatim { .. } => "Verbatim::new",
            SubArgs::Fixed { .. } => "FixedLpc::new",
            SubArgs::Lpc { .. } => "Lpc::new",
        }
    }
    fn kind_code(&self) -> u8 {
        match self {
            SubArgs::Constant { .. } => 0,
            SubArgs::Verbatim { .. } => 1,
            SubArgs::Fixed { .. } => 2,
            SubArgs::Lpc { .. } => 3,
        }
    }
    fn bps(&self) -> usize {
        match self {
            SubArgs::Constant { bps, .. } | SubArgs::Verbatim { bps, .. } | SubArgs::Fixed { bps, .. } | SubArgs::Lpc { bps, .. } => *bps,
        }
    }
    fn block(&self) -> usize {
        match self {
            SubArgs::Constant { block, .. } => *block,
            SubArgs::Verbatim { len, .. } => *len,
            SubArgs::Fixed { res, .. } | SubArgs::Lpc { res, .. } => res.block,
        }
    }
    /// `Err(Some(stage))` when an inner constructor (residual / parameters) refused; `Err(None)` when
    /// the subframe constructor itself refused.
    fn build(&self) -> Result<SubFrame, Option<&'static str>> {
        match self {
            SubArgs::Constant { block, dc, bps } => Constant::new(*block, *dc, *bps).map(Into::into).map_err(|_| None),
            SubArgs::Verbatim { len, bps, mode, seed } => {
                let w = WarmArgs { len: *len, mode: *mode, seed: *seed };
                Verbatim::new(&w.values(*bps), *bps).map(Into::into).map_err(|_| None)
            }
            SubArgs::Fixed { warm, res, bps } => {
                let r = res.build().map_err(|_| Some("residual"))?;
                FixedLpc::new(&warm.values(*bps), r, *bps).map(Into::into).map_err(|_| None)
            }
            SubArgs::Lpc { warm, qp, res, bps } => {
                let r = res.build().map_err(|_| Some("residual"))?;
                let q = qp.build().map_err(|_| Some("parameters"))?;
                Lpc::new(&warm.values(*bps), q, r, *bps).map(Into::into).map_err(|_| None)
            }
        }
    }
}

#[derive(Clone, Debug, PartialEq, Serialize, Deserialize)]
pub struct HeaderArgs {
    pub block: usize,
    /// 1..=8 => Independent(n), 0 / 9 / 255 => Independent(that), 100 LeftSide, 101 RightSide, 102 MidSide
    pub assign: u8,
    pub bps: usize,
    pub rate: usize,
    pub variable: bool,
    pub offset: u64,
}

impl HeaderArgs {
    fn assignment(&self) -> ChannelAssignment {
        match self.assign {
            100 => ChannelAssignment::LeftSide,
            101 => ChannelAssignment::RightSide,
            102 => ChannelAssignment::MidSide,
            n => ChannelAssignment::Independent(n),
        }
    }
    fn channels(&self) -> usize {
        match self.assign {
            100..=102 => 2,
            n => n as usize,
        }
    }
    fn build(&self) -> Result<FrameHeader, String> {
        let off = if self.variable { FrameOffset::StartSample(self.offset) } else { FrameOffset::Frame(self.offset as u32) };
        FrameHeader::new(self.block, self.assignment(), self.bps, self.rate, off).map_err(|e| format!("{e}"))
    }
}

#[derive(Clone, Debug, PartialEq, Serialize, Deserialize)]
pub enum InfoOp {
    BlockSizes(usize, usize),
    FrameSizes(usize, usize),
    Total(usize),
    Md5(u8),
}

#[derive(Clone, Debug, PartialEq, Serialize, Deserialize)]
pub struct InfoArgs {
    pub rate: usize,
    pub channels: usize,
    pub bps: usize,
    pub ops: Vec<InfoOp>,
}

#[derive(Clone, Debug, PartialEq, Serialize, Deserialize)]
pub struct FrameArgs {
    pub header: HeaderArgs,
    pub subs: Vec<SubArgs>,
}

#[derive(Clone, Debug, PartialEq, Serialize, Deserialize)]
pub enum Case18 {
    Residual(ResArgs),
    Qp(QpArgs),
    Sub(SubArgs),
    Header(HeaderArgs),
    Frame(FrameArgs),
    Info(InfoArgs),
    /// `Stream::with_stream_info(info)` (or `Stream::new` when `via_new`) + unknown metadata blocks (tag, length) + frames
    Stream { info: InfoArgs, via_new: bool, meta: Vec<(u8, usize)>, frames: Vec<FrameArgs> },
    Unknown { tag: u8, len: usize },
}

impl Case18 {
    fn label(&self) -> &'static str {
        match self {
            Case18::Residual(_) => "Residual::new",
            Case18::Qp(_) => "QuantizedParameters::new",
            Case18::Sub(s) => s.kind(),
            Case18::Header(_) => "FrameHeader::new",
            Case18::Frame(_) => "Frame::new",
            Case18::Info(_) => "StreamInfo::new",
            Case18::Stream { .. } => "Stream::new",
            Case18::Unknown { .. } => "MetadataBlockData::new_unknown",
        }
    }
}

// ------------------------------------------------------------------------------------------
// oracle
// ------------------------------------------------------------------------------------------

fn dbg<T: serde::Serialize>(x: &T) -> String {
    serde_json::to_string(x).unwrap_or_else(|e| format!("<unserialisable: {e}>"))
}

fn first_diff(a: &str, b: &str) -> String {
    let i = a.bytes().zip(b.bytes()).position(|(x, y)| x != y).unwrap_or(a.len().min(b.len()));
    let s = i.saturating_sub(60);
    let cut = |t: &str| -> String { t.chars().skip(s).take(160).collect() };
    format!("constructed ..{} | parsed ..{}", cut(a), cut(b))
}

/// The part of the oracle that follows an `Ok` from a constructor.
/// `parse(bytes)` returns (component, consumed bits).
fn accepted<T: BitRepr + Verify + serde::Serialize>(what: &str, c: &T, parse: impl Fn(&[u8]) -> Result<(T, usize), String>, out: &mut Outcome) {
    accepted_lim(what, c, parse, out, MATERIALISE_LIMIT_BITS)
}

fn accepted_lim<T: BitRepr + Verify + serde::Serialize>(what: &str, c: &T, parse: impl Fn(&[u8]) -> Result<(T, usize), String>, out: &mut Outcome, limit: usize) {
    out.class(format!("{what}:accepted"));
    match catch(|| c.verify()) {
        Err(p) => return out.viol(format!("{what}:verify-panic:{}", normalise(&p.sig())), format!("verify() of an accepted component panicked: {} at {}", p.msg, p.loc)),
        Ok(Err(e)) => return out.viol(format!("{what}:accepted-but-verify-fails"), format!("the constructor returned Ok but verify() says: {e}")),
        Ok(Ok(())) => {}
    }
    let counted = match catch(|| c.count_bits()) {
        Err(p) => return out.viol(format!("{what}:count_bits-panic:{}", normalise(&p.sig())), format!("count_bits() of an accepted component panicked: {} at {}", p.msg, p.loc)),
        Ok(n) => n,
    };
    if counted > limit {
        out.class(format!("{what}:large(count-only)"));
        let r = catch(|| {
            let mut cs = CountSink::default();
            c.write(&mut cs).map(|()| cs.bits).map_err(|e| format!("{e:?}"))
        });
        match r {
            Err(p) => out.viol(format!("{what}:write-panic:{}", normalise(&p.sig())), format!("write() of an accepted component panicked: {} at {}", p.msg, p.loc)),
            Ok(Err(e)) => out.viol(format!("{what}:write-error"), format!("write() of an accepted component failed: {e}")),
            Ok(Ok(bits)) => {
                if bits != counted as u128 {
                    out.viol(format!("{what}:count_bits-differs"), format!("count_bits() = {counted}, written {bits}"));
                }
            }
        }
        return;
    }
    // a write that fails half-way (user sink failing at its k-th operation) must not change what the
    // next write of the component produces (the writers keep thread-local scratch buffers)
    let poisoned = catch(|| {
        let mut probe = crate::oracle::bits::MinimalSink::new();
        if c.write(&mut probe).is_ok() && probe.ops >= 2 {
            let k = (counted / 3) % probe.ops;
            let mut failing = crate::oracle::bits::MinimalSink::failing_at(k);
            let _ = c.write(&mut failing);
        }
    });
    if let Err(p) = poisoned {
        return out.viol(format!("{what}:write-panic(failing-sink):{}", normalise(&p.sig())), format!("write() into a failing user sink panicked: {} at {}", p.msg, p.loc));
    }
    let written = catch(|| {
        let mut sink = ByteSink::new();
        c.write(&mut sink).map_err(|e| format!("{e:?}"))?;
        let n = sink.len();
        Ok::<_, String>((sink.into_inner(), n))
    });
    let (bytes, nbits) = match written {
        Err(p) => return out.viol(format!("{what}:write-panic:{}", normalise(&p.sig())), format!("write() of an accepted component panicked: {} at {}", p.msg, p.loc)),
        Ok(Err(e)) => return out.viol(format!("{what}:write-error"), format!("write() of an accepted component failed: {e}")),
        Ok(Ok(x)) => x,
    };
    if nbits != counted {
        return out.viol(format!("{what}:count_bits-differs"), format!("count_bits() = {counted} but {nbits} bits were written"));
    }
    let parsed = catch(|| parse(&bytes));
    let (back, consumed) = match parsed {
        Err(p) => return out.viol(format!("{what}:parse-panic:{}", normalise(&p.sig())), format!("the parser panicked on the bits of an accepted component: {} at {}", p.msg, p.loc)),
        Ok(Err(e)) => return out.viol(format!("{what}:parse-back-fails"), format!("the parser rejects the {nbits} bits written by an accepted component: {e}")),
        Ok(Ok(x)) => x,
    };
    if consumed != nbits {
        return out.viol(format!("{what}:parse-back-consumes-different-length"), format!("written {nbits} bits, the parser consumed {consumed}"));
    }
    let (a, b) = (dbg(c), dbg(&back));
    if a != b {
        // the one recorded finding: a STREAMINFO whose frame sizes were never set holds the placeholders
        // (u32::MAX, 0), which are written as (0, 0) = "unknown"; everything else must still be identical
        let a_norm = a.replace("\"min_frame_size\":4294967295,\"max_frame_size\":0", "\"min_frame_size\":0,\"max_frame_size\":0");
        if a_norm == b {
            return out.viol(format!("{what}:frame-size-placeholders-not-preserved"), first_diff(&a, &b));
        }
        return out.viol(format!("{what}:parse-back-differs"), first_diff(&a, &b));
    }
    let again = catch(|| {
        let mut sink = ByteSink::new();
        back.write(&mut sink).map_err(|e| format!("{e:?}"))?;
        Ok::<_, String>(sink.into_inner())
    });
    match again {
        Ok(Ok(x)) if x == bytes => {}
        _ => out.viol(format!("{what}:reserialisation-differs"), "the parsed component does not serialise to the same bytes".to_string()),
    }
}

fn bytes_of<T: BitRepr>(c: &T) -> Vec<u8> {
    let mut sink = ByteSink::new();
    let _ = c.write(&mut sink);
    sink.into_inner()
}

fn bit_consumed(total_bytes: usize, rest: (&[u8], usize)) -> usize {
    (total_bytes - rest.0.len()) * 8 + rest.1
}

fn short(e: impl Debug) -> String {
    format!("{e:?}").chars().take(160).collect()
}

fn oracle_residual(a: &ResArgs, r: &Residual, out: &mut Outcome) {
    let (block, warm) = (a.block, a.warmup);
    accepted("Residual::new", r, |b| parser::residual::<BE>(block, warm)((b, 0)).map(|(rest, v)| (v, bit_consumed(b.len(), rest))).map_err(short), out);
}

fn oracle_subframe(args: &SubArgs, sf: &SubFrame, out: &mut Outcome) {
    let (block, bps) = (args.block(), args.bps());
    let what = args.kind();
    match sf {
        SubFrame::Constant(c) => accepted(what, c, |b| parser::constant::<BE>(block, bps)((b, 0)).map(|(rest, v)| (v, bit_consumed(b.len(), rest))).map_err(short), out),
        SubFrame::Verbatim(c) => accepted(what, c, |b| parser::verbatim::<BE>(block, bps)((b, 0)).map(|(rest, v)| (v, bit_consumed(b.len(), rest))).map_err(short), out),
        SubFrame::FixedLpc(c) => accepted(what, c, |b| parser::fixed_lpc::<BE>(block, bps)((b, 0)).map(|(rest, v)| (v, bit_consumed(b.len(), rest))).map_err(short), out),
        SubFrame::Lpc(c) => accepted(what, c, |b| parser::lpc::<BE>(block, bps)((b, 0)).map(|(rest, v)| (v, bit_consumed(b.len(), rest))).map_err(short), out),
    }
    if out.failed() {
        return;
    }
    // the same component through the SubFrame enum and the generic subframe parser
    accepted(
        match sf {
            SubFrame::Constant(_) => "SubFrame(Constant)",
            SubFrame::Verbatim(_) => "SubFrame(Verbatim)",
            SubFrame::FixedLpc(_) => "SubFrame(FixedLpc)",
            SubFrame::Lpc(_) => "SubFrame(Lpc)",
        },
        sf,
        |b| parser::subframe::<BE>(block, bps)((b, 0)).map(|(rest, v)| (v, bit_consumed(b.len(), rest))).map_err(short),
        out,
    );
}

fn apply_info_ops(info: &mut StreamInfo, ops: &[InfoOp], out: &mut Outcome) -> bool {
    for op in ops {
        let r = catch(|| match op {
            InfoOp::BlockSizes(a, b) => info.set_block_sizes(*a, *b).map_err(|e| format!("{e}")),
            InfoOp::FrameSizes(a, b) => info.set_frame_sizes(*a, *b).map_err(|e| format!("{e}")),
            InfoOp::Total(n) => {
                info.set_total_samples(*n);
                Ok(())
            }
            InfoOp::Md5(x) => {
                info.set_md5_digest(&[*x; 16]);
                Ok(())
            }
        });
        match r {
            Err(p) => {
                out.viol(format!("StreamInfo-setter-panic:{}", normalise(&p.sig())), format!("{op:?}: {} at {}", p.msg, p.loc));
                return false;
            }
            Ok(Err(_)) => {
                // a refused setter may leave the value half-updated; the history ends here (the
                // property is about components the API returned Ok for)
                out.class("StreamInfo:setter-refused");
                return false;
            }
            Ok(Ok(())) => {
                // a setter that returned Ok (or has no Result) for a value inside the serialisable range must have
                // stored that value: the accessors state it
                let kept = match op {
                    InfoOp::BlockSizes(a, b) => info.min_block_size() == *a && info.max_block_size() == *b,
                    InfoOp::FrameSizes(a, b) => info.min_frame_size() == *a && info.max_frame_size() == *b,
                    InfoOp::Total(n) => info.total_samples() == *n,
                    InfoOp::Md5(x) => info.md5_digest() == &[*x; 16],
                };
                if !kept {
                    out.viol(
                        format!("StreamInfo-setter-does-not-store-the-value:{}", match op { InfoOp::BlockSizes(..) => "block-sizes", InfoOp::FrameSizes(..) => "frame-sizes", InfoOp::Total(_) => "total-samples", InfoOp::Md5(_) => "md5" }),
                        format!("{op:?} was accepted but the accessors state block sizes {}..{}, frame sizes {}..{}, total {}", info.min_block_size(), info.max_block_size(), info.min_frame_size(), info.max_frame_size(), info.total_samples()),
                    );
                    return false;
                }
            }
        }
    }
    true
}

fn info_sig_suffix(info: &StreamInfo) -> &'static str {
    if info.min_block_size() > info.max_block_size() {
        ":block-sizes-never-set"
    } else {
        ""
    }
}

fn build_info(a: &InfoArgs, out: &mut Outcome) -> Option<StreamInfo> {
    let r = catch(|| StreamInfo::new(a.rate, a.channels, a.bps));
    let mut info = match r {
        Err(p) => {
            out.viol(format!("StreamInfo::new:ctor-panic:{}", normalise(&p.sig())), format!("{} at {}", p.msg, p.loc));
            return None;
        }
        Ok(Err(_)) => {
            out.class("StreamInfo::new:refused");
            return None;
        }
        Ok(Ok(i)) => i,
    };
    if !apply_info_ops(&mut info, &a.ops, out) {
        return None;
    }
    Some(info)
}

fn build_frame(a: &FrameArgs, out: &mut Outcome) -> Option<Frame> {
    let header = match catch(|| a.header.build()) {
        Err(p) => {
            out.viol(format!("FrameHeader::new:ctor-panic:{}", normalise(&p.sig())), format!("{} at {}", p.msg, p.loc));
            return None;
        }
        Ok(Err(_)) => {
            out.class("Frame::new:header-refused");
            return None;
        }
        Ok(Ok(h)) => h,
    };
    let mut subs = vec![];
    for s in &a.subs {
        match catch(|| s.build()) {
            Err(p) => {
                out.viol(format!("{}:ctor-panic:{}", s.kind(), normalise(&p.sig())), format!("{} at {}", p.msg, p.loc));
                return None;
            }
            Ok(Err(_)) => {
                out.class("Frame::new:subframe-refused");
                return None;
            }
            Ok(Ok(sf)) => subs.push(sf),
        }
    }
    match catch(|| Frame::new(header, subs.into_iter())) {
        Err(p) => {
            out.viol(format!("Frame::new:ctor-panic:{}", normalise(&p.sig())), format!("{} at {}", p.msg, p.loc));
            None
        }
        Ok(Err(_)) => {
            out.class("Frame::new:refused");
            None
        }
        Ok(Ok(f)) => Some(f),
    }
}

pub fn check(case: &Case18) -> Outcome {
    let mut out = Outcome::new(fnv(serde_json::to_string(case).unwrap_or_default().as_bytes()));
    let what = case.label();
    match case {
        Case18::Residual(a) => {
            let consistent = a.order < 16 && a.params.len() == 1usize << a.order && a.nq == a.block && a.nr == a.block && a.block % (1usize << a.order) == 0 && a.warmup <= a.block >> a.order;
            out.nontrivial = !consistent || a.order > 0;
            out.class(if consistent { "Residual:consistent-shape" } else { "Residual:inconsistent-shape" });
            match catch(|| a.build()) {
                Err(p) => out.viol(format!("{what}:ctor-panic:{}", normalise(&p.sig())), format!("{} at {}", p.msg, p.loc)),
                Ok(Err(_)) => out.class("Residual::new:refused"),
                Ok(Ok(r)) => oracle_residual(a, &r, &mut out),
            }
        }
        Case18::Qp(a) => {
            out.nontrivial = true;
            match catch(|| a.build()) {
                Err(p) => out.viol(format!("{what}:ctor-panic:{}", normalise(&p.sig())), format!("{} at {}", p.msg, p.loc)),
                Ok(Err(_)) => out.class("QuantizedParameters::new:refused"),
                Ok(Ok(q)) => {
                    out.class("QuantizedParameters::new:accepted");
                    match catch(|| q.verify()) {
                        Err(p) => return viol1(out, format!("{what}:verify-panic:{}", normalise(&p.sig())), format!("{} at {}", p.msg, p.loc)),
                        Ok(Err(e)) => return viol1(out, format!("{what}:accepted-but-verify-fails"), format!("{e}")),
                        Ok(Ok(())) => {}
                    }
                    // serialisability: the parameters are written as part of an LPC subframe; an accepted
                    // parameter set embedded with a matching warm-up and residual must serialise and parse back.
                    let order = a.order;
                    if order <= 32 {
                        let block = 64usize;
                        let res = ResArgs::consistent(0, block, order.min(block), 6, 1, a.seed);
                        let sub = SubArgs::Lpc { warm: WarmArgs { len: order, mode: 1, seed: a.seed }, qp: a.clone(), res, bps: 16 };
                        match catch(|| sub.build()) {
                            Err(p) => out.viol(format!("{what}:accepted-parameters-make-Lpc::new-panic:{}", normalise(&p.sig())), format!("{} at {}", p.msg, p.loc)),
                            Ok(Err(Some(_))) => out.class("QuantizedParameters:embedding-skipped"),
                            Ok(Err(None)) => out.viol(format!("{what}:accepted-parameters-not-serialisable"), "Lpc::new refuses accepted parameters embedded with a matching warm-up, a valid residual and 16-bit samples".to_string()),
                            Ok(Ok(sf)) => {
                                let mut o2 = Outcome::new(0);
                                oracle_subframe(&sub, &sf, &mut o2);
                                for v in o2.viols {
                                    out.viol(format!("{what}:via-Lpc:{}", v.sig), v.detail);
                                }
                            }
                        }
                    }
                }
            }
        }
        Case18::Sub(a) => {
            out.nontrivial = !matches!(a, SubArgs::Constant { .. });
            match catch(|| a.build()) {
                Err(p) => out.viol(format!("{what}:ctor-panic:{}", normalise(&p.sig())), format!("{} at {}", p.msg, p.loc)),
                Ok(Err(Some(stage))) => out.class(format!("{what}:inner-{stage}-refused")),
                Ok(Err(None)) => out.class(format!("{what}:refused")),
                Ok(Ok(sf)) => oracle_subframe(a, &sf, &mut out),
            }
        }
        Case18::Header(a) => {
            out.nontrivial = true;
            match catch(|| a.build()) {
                Err(p) => out.viol(format!("{what}:ctor-panic:{}", normalise(&p.sig())), format!("{} at {}", p.msg, p.loc)),
                Ok(Err(_)) => out.class("FrameHeader::new:refused"),
                Ok(Ok(h)) => {
                    // the component states the arguments it was made from (not a narrowed reading of them)
                    let assign_ok = h.channel_assignment() == &a.assignment();
                    if h.block_size() != a.block || h.bits_per_sample().map_or(false, |b| b != a.bps) || !assign_ok || a.rate > u32::MAX as usize {
                        out.viol(
                            format!("{what}:accepted-with-other-values-than-given"),
                            format!("FrameHeader::new(block {}, assignment {}, {} bits, rate {}) returned a header of block size {}, {:?} bits, {:?}", a.block, a.assign, a.bps, a.rate, h.block_size(), h.bits_per_sample(), h.channel_assignment()),
                        );
                        return out;
                    }
                    accepted(what, &h, |b| parser::frame_header::<E>(true)(b).map(|(rest, v)| (v, (b.len() - rest.len()) * 8)).map_err(short), &mut out)
                }
            }
        }
        Case18::Frame(a) => {
            out.nontrivial = true;
            if let Some(f) = build_frame(a, &mut out) {
                let (ch, bps, rate) = (a.header.channels(), a.header.bps, a.header.rate.min(96_000));
                match StreamInfo::new(rate, ch, bps) {
                    Ok(info) => accepted(what, &f, |b| parser::frame::<E>(&info, true)(b).map(|(rest, v)| (v, (b.len() - rest.len()) * 8)).map_err(short), &mut out),
                    Err(e) => out.viol(format!("{what}:accepted-frame-has-no-stream-format"), format!("Frame::new accepted a header with {ch} channels / {bps} bits for which StreamInfo::new fails: {e}")),
                }
                if !out.failed() {
                    // precomputation must not change anything observable
                    let mut g = f.clone();
                    let r = catch(|| {
                        g.precompute_bitstream();
                        (g.verify().map_err(|e| format!("{e}")), g.count_bits(), bytes_of(&g))
                    });
                    match r {
                        Err(p) => out.viol(format!("{what}:precompute-panic:{}", normalise(&p.sig())), format!("{} at {}", p.msg, p.loc)),
                        Ok((Err(e), _, _)) => out.viol(format!("{what}:precomputed-does-not-verify"), e),
                        Ok((Ok(()), n, bytes)) => {
                            if n != f.count_bits() || bytes != bytes_of(&f) {
                                out.viol(format!("{what}:precomputed-differs"), "precompute_bitstream changes the bits or their count".to_string());
                            }
                        }
                    }
                }
            }
        }
        Case18::Info(a) => {
            out.nontrivial = !a.ops.is_empty();
            if let Some(info) = build_info(a, &mut out) {
                let w = format!("{what}{}", info_sig_suffix(&info));
                accepted(&w, &info, |b| parser::stream_info::<E>(b).map(|(rest, v)| (v, (b.len() - rest.len()) * 8)).map_err(short), &mut out);
            }
        }
        Case18::Stream { info, via_new, meta, frames } => {
            out.nontrivial = !meta.is_empty() || !frames.is_empty();
            // `add_frame` adds every block to the total: a total set near the end of the 36-bit range leaves the
            // serialisable range through frames, not through a constructor (section 9, entries 1 and 10)
            let set_total = info.ops.iter().filter_map(|o| if let InfoOp::Total(t) = o { Some(*t as u128) } else { None }).last().unwrap_or(0);
            if set_total + frames.iter().map(|f| f.header.block as u128).sum::<u128>() > (1u128 << 36) - 1 {
                out.class("Stream:total-leaves-the-36-bit-range-through-add_frame(not judged)");
                return out;
            }
            let stream = if *via_new {
                match catch(|| Stream::new(info.rate, info.channels, info.bps)) {
                    Err(p) => return viol1(out, format!("{what}:ctor-panic:{}", normalise(&p.sig())), format!("{} at {}", p.msg, p.loc)),
                    Ok(Err(_)) => {
                        out.class("Stream::new:refused");
                        return out;
                    }
                    Ok(Ok(mut s)) => {
                        if !apply_info_ops(s.stream_info_mut(), &info.ops, &mut out) {
                            return out;
                        }
                        s
                    }
                }
            } else {
                let Some(i) = build_info(info, &mut out) else { return out };
                Stream::with_stream_info(i)
            };
            let mut stream = stream;
            for (tag, len) in meta {
                match catch(|| MetadataBlockData::new_unknown(*tag, &vec![0x5Au8; *len])) {
                    Err(p) => return viol1(out, format!("MetadataBlockData::new_unknown:ctor-panic:{}", normalise(&p.sig())), format!("{} at {}", p.msg, p.loc)),
                    Ok(Err(_)) => {
                        out.class("new_unknown:refused");
                        return out;
                    }
                    Ok(Ok(m)) => stream.add_metadata_block(m),
                }
            }
            for fa in frames {
                let Some(f) = build_frame(fa, &mut out) else { return out };
                if let Err(p) = catch(|| stream.add_frame(f)) {
                    return viol1(out, format!("Stream::add_frame-panic:{}", normalise(&p.sig())), format!("{} at {}", p.msg, p.loc));
                }
            }
            // add_frame is not a constructor (no Result): a stream whose frames disagree with its own
            // STREAMINFO is the caller's inconsistency, not judged here
            if frames.iter().any(|f| f.header.channels() != info.channels || f.header.bps != info.bps) {
                out.class("Stream:frames-disagree-with-STREAMINFO(not judged)");
                return out;
            }
            // Frames that agree with the stream format and are numbered the way Stream::verify documents (fixed blocking:
            // "must be the count of the preceding frames"; variable blocking: "must be the sum of the block sizes of the
            // preceding frames") form a stream that is consistent by construction: the verification routine must accept it.
            let consistent = !frames.is_empty() && {
                let variable = frames[0].header.variable;
                let mut sum = 0u64;
                frames.iter().enumerate().all(|(i, f)| {
                    let ok = f.header.variable == variable && f.header.offset == if variable { sum } else { i as u64 };
                    sum += f.header.block as u64;
                    ok
                })
            };
            if consistent && frames[0].header.variable && frames.len() >= 3 && frames.windows(2).any(|w| w[0].header.block != w[1].header.block) {
                out.class("Stream:assembled-consistent:variable:>=3-frames-of-differing-size");
            }
            if consistent {
                out.class(format!("Stream:assembled-consistent:variable={}:frames={}", frames[0].header.variable, frames.len().min(4)));
            }
            // a stream is a component assembled from accepted parts: only judged when it verifies
            match catch(|| stream.verify()) {
                Err(p) => return viol1(out, format!("{what}:verify-panic:{}", normalise(&p.sig())), format!("{} at {}", p.msg, p.loc)),
                Ok(Err(e)) if consistent => {
                    return viol1(out, format!("{what}:consistent-assembled-stream-does-not-verify"), format!("{} frames (variable blocking: {}), block sizes {:?}: {e}", frames.len(), frames[0].header.variable, frames.iter().map(|f| f.header.block).collect::<Vec<_>>()));
                }
                Ok(Err(_)) if !frames.is_empty() => {
                    out.class("Stream:assembled-stream-does-not-verify(not judged)");
                    return out;
                }
                _ => {}
            }
            let w = format!("{what}{}", info_sig_suffix(stream.stream_info()));
            accepted(&w, &stream, |b| parser::stream::<E>(b).map(|(rest, v)| (v, (b.len() - rest.len()) * 8)).map_err(short), &mut out);
        }
        Case18::Unknown { tag, len } => {
            out.nontrivial = true;
            match catch(|| MetadataBlockData::new_unknown(*tag, &vec![0xC3u8; *len])) {
                Err(p) => out.viol(format!("{what}:ctor-panic:{}", normalise(&p.sig())), format!("{} at {}", p.msg, p.loc)),
                Ok(Err(_)) => out.class("new_unknown:refused"),
                Ok(Ok(m)) => {
                    // serialised inside a stream (the block header carries the tag and the length)
                    let mut info = StreamInfo::new(44100, 2, 16).unwrap();
                    info.set_block_sizes(4096, 4096).unwrap();
                    info.set_frame_sizes(14, 5000).unwrap();
                    let mut stream = Stream::with_stream_info(info);
                    stream.add_metadata_block(m);
                    accepted_lim(what, &stream, |b| parser::stream::<E>(b).map(|(rest, v)| (v, (b.len() - rest.len()) * 8)).map_err(short), &mut out, 1 << 28);
                }
            }
        }
    }
    out
}

fn viol1(mut out: Outcome, sig: String, detail: String) -> Outcome {
    out.viol(sig, detail);
    out
}

// ------------------------------------------------------------------------------------------
// grids
// ------------------------------------------------------------------------------------------

const BIG: usize = (1usize << 32) + 8;

fn residual_grid() -> Vec<Case18> {
    let mut v = vec![];
    // shape grid: order x block x warm-up x parameter count x vector lengths
    for &order in &[0usize, 1, 2, 3, 6, 8, 15, 16, 63, 64, 255, 256, 257, BIG, usize::MAX] {
        for &block in &[0usize, 1, 2, 16, 48, 64, 192, 4096, 32767, 32768, 65536] {
            for &warmup in &[0usize, 1, 4, 5, 32, 33, 64, 65, 4097, usize::MAX] {
                let ideal = if order < 16 { 1usize << order } else { 1 };
                for np in [ideal, ideal.saturating_sub(1), ideal + 1, 0] {
                    if np > 70_000 {
                        continue;
                    }
                    for (nq, nr) in [(block, block), (block.saturating_sub(1), block), (block, block + 1), (0, 0)] {
                        if nq > 70_000 || nr > 70_000 {
                            continue;
                        }
                        let params = vec![3u8; np];
                        v.push(Case18::Residual(ResArgs { order, block, warmup, params, nq, nr, qmode: 1, rmode: 1, seed: 7 }));
                    }
                }
            }
        }
    }
    // value grid on consistent shapes
    for &(order, block, warmup) in &[(0usize, 64usize, 0usize), (0, 64, 2), (2, 64, 4), (2, 64, 16), (3, 256, 32), (6, 4096, 12), (0, 1, 0), (0, 1, 1), (4, 16, 1), (4, 16, 0), (0, 32767, 3)] {
        for &p in &[0u8, 1, 7, 14, 15, 16, 30, 31, 32, 255] {
            for qmode in 0..=5u8 {
                for rmode in 0..=4u8 {
                    if qmode == 5 && block > 256 {
                        continue;
                    }
                    let params = vec![p; 1 << order];
                    v.push(Case18::Residual(ResArgs { order, block, warmup, params, nq: block, nr: block, qmode, rmode, seed: 11 + qmode as u64 }));
                }
            }
        }
    }
    // block sizes far beyond the vectors, with large quotients (products that overflow usize)
    for &block in &[BIG, usize::MAX, usize::MAX / 2, 1usize << 40] {
        for &order in &[0usize, 1, 3] {
            for qmode in [1u8, 2, 5] {
                let params = vec![1u8; 1 << order];
                v.push(Case18::Residual(ResArgs { order, block, warmup: 0, params, nq: 2, nr: 2, qmode, rmode: 1, seed: 4294967295 }));
            }
        }
    }
    // mixed parameters, one of them out of range
    for bad in [15u8, 16, 31, 200] {
        for pos in 0..4 {
            let mut params = vec![2u8, 5, 0, 14];
            params[pos] = bad;
            v.push(Case18::Residual(ResArgs { order: 2, block: 128, warmup: 3, params, nq: 128, nr: 128, qmode: 1, rmode: 1, seed: 5 }));
        }
    }
    v
}

fn qp_grid() -> Vec<Case18> {
    let mut v = vec![];
    for &ncoefs in &[0usize, 1, 2, 8, 24, 25, 31, 32, 33, 40] {
        for &order in &[0usize, 1, 2, 8, 24, 25, 31, 32, 33, 40, BIG, usize::MAX] {
            for &shift in &[-128i8, -17, -16, -1, 0, 1, 15, 16, 127] {
                for &precision in &[0usize, 1, 2, 7, 15, 16, 17, 64, usize::MAX] {
                    for cmode in [1u8, 2, 3, 4] {
                        if (ncoefs != order) && cmode != 1 {
                            continue;
                        }
                        v.push(Case18::Qp(QpArgs { ncoefs, order, shift, precision, cmode, seed: 3 }));
                    }
                }
            }
        }
    }
    v
}

fn bps_grid() -> Vec<usize> {
    vec![0, 1, 3, 4, 5, 7, 8, 9, 12, 13, 16, 17, 20, 21, 24, 25, 26, 28, 29, 32, 33, 64, 255, 256, 264, 272, BIG + 8, usize::MAX]
}

fn block_grid() -> Vec<usize> {
    vec![0, 1, 2, 15, 16, 192, 255, 256, 257, 4096, 32767, 32768, 65535, 65536, 65537, BIG, usize::MAX]
}

fn sub_grid() -> Vec<Case18> {
    let mut v = vec![];
    for &block in &block_grid() {
        for &bps in &bps_grid() {
            let (lo, hi) = width_bounds(bps);
            for dc in [lo - 1, lo, -1, 0, 1, hi, hi + 1, i32::MIN as i64, i32::MAX as i64] {
                if dc < i32::MIN as i64 || dc > i32::MAX as i64 {
                    continue;
                }
                v.push(Case18::Sub(SubArgs::Constant { block, dc: dc as i32, bps }));
            }
        }
    }
    for &len in &[0usize, 1, 2, 16, 4096, 32767, 32768, 40000, 65536] {
        for &bps in &bps_grid() {
            for mode in 0..=3u8 {
                v.push(Case18::Sub(SubArgs::Verbatim { len, bps, mode, seed: 9 }));
            }
        }
    }
    // FixedLpc: warm-up length x residual warm-up length x width
    for wl in 0..=6usize {
        for rw in 0..=6usize {
            for &bps in &[8usize, 9, 16, 24, 25, 26, 7, 0, 32, 264] {
                for mode in 0..=3u8 {
                    for &(order, block) in &[(0usize, 64usize), (2, 64), (0, 4), (0, 1)] {
                        let res = ResArgs::consistent(order, block, rw, 9, 1, 40 + wl as u64);
                        v.push(Case18::Sub(SubArgs::Fixed { warm: WarmArgs { len: wl, mode, seed: 5 }, res, bps }));
                    }
                }
            }
        }
    }
    // Lpc: warm-up length x parameter order x residual warm-up length
    for &wl in &[0usize, 1, 2, 8, 24, 25, 32, 33] {
        for &qo in &[0usize, 1, 2, 8, 24, 25, 32] {
            for &rw in &[0usize, 1, 2, 8, 24, 25, 32, 33] {
                if wl != qo && qo != rw && wl != rw {
                    continue;
                }
                for &bps in &[8usize, 16, 25, 26, 0] {
                    for &(precision, shift) in &[(15usize, 0i8), (1, 0), (0, 0), (16, 0), (12, 15), (12, 16), (12, -1)] {
                        let res = ResArgs::consistent(0, 128, rw, 9, 1, 70);
                        let qp = QpArgs { ncoefs: qo, order: qo, shift, precision, cmode: 1, seed: 8 };
                        v.push(Case18::Sub(SubArgs::Lpc { warm: WarmArgs { len: wl, mode: 1, seed: 6 }, qp, res, bps }));
                    }
                }
            }
        }
    }
    v
}

fn header_grid() -> Vec<Case18> {
    let mut v = vec![];
    let offsets: Vec<(bool, u64)> = {
        let mut o = vec![];
        for x in [0u64, 1, 127, 128, 2047, 2048, 65535, 65536, (1 << 21) - 1, 1 << 21, (1 << 26) - 1, 1 << 26, (1 << 31) - 1, 1 << 31, u32::MAX as u64] {
            o.push((false, x));
            o.push((true, x));
        }
        for x in [(1u64 << 32), (1 << 36) - 1, 1 << 36, (1 << 36) + 1, 1 << 40, u64::MAX] {
            o.push((true, x));
        }
        o
    };
    let assigns = [1u8, 2, 3, 8, 0, 9, 255, 100, 101, 102];
    for &block in &block_grid() {
        for &assign in &assigns {
            for &bps in &[8usize, 12, 16, 20, 24, 32, 0, 4, 9, 25, 264, 272, BIG + 16, usize::MAX] {
                for &rate in &[44100usize, 0, 1, 95999, 96000, 96001, 655350, 655351, 255000, 256000, 192000, BIG + 44100, usize::MAX] {
                    v.push(Case18::Header(HeaderArgs { block, assign, bps, rate, variable: false, offset: 5 }));
                }
            }
        }
    }
    for &block in &[1usize, 16, 192, 4000, 32767] {
        for &(variable, offset) in &offsets {
            v.push(Case18::Header(HeaderArgs { block, assign: 2, bps: 16, rate: 48000, variable, offset }));
        }
    }
    v
}

/// Every block size 0..=65537 and every sample rate 0..=96100 (plus the multiples of 10 up to 655350 and of 1000 up to
/// 255000, the code families) through `FrameHeader::new`: the code tables are finite, so they are enumerated.
fn header_sweep() -> Vec<Case18> {
    let mut v = vec![];
    for block in 0usize..=65537 {
        v.push(Case18::Header(HeaderArgs { block, assign: 2, bps: 16, rate: 44100, variable: block % 2 == 1, offset: 5 }));
    }
    for rate in 0usize..=96100 {
        v.push(Case18::Header(HeaderArgs { block: 192, assign: 1, bps: 16, rate, variable: false, offset: 0 }));
    }
    for k in 0usize..=65540 {
        v.push(Case18::Header(HeaderArgs { block: 4096, assign: 1, bps: 24, rate: k * 10, variable: false, offset: 1 }));
    }
    for k in 0usize..=260 {
        v.push(Case18::Header(HeaderArgs { block: 576, assign: 102, bps: 8, rate: k * 1000, variable: true, offset: 576 }));
    }
    v
}

fn consistent_sub(kind: u8, block: usize, bps: usize, seed: u64) -> SubArgs {
    match kind % 4 {
        0 => {
            let (lo, hi) = width_bounds(bps);
            SubArgs::Constant { block, dc: Sm64::new(seed).range_i64(lo, hi) as i32, bps }
        }
        1 => SubArgs::Verbatim { len: block, bps, mode: 1, seed },
        2 => {
            let o = (seed % 5) as usize;
            let o = o.min(block);
            SubArgs::Fixed { warm: WarmArgs { len: o, mode: 1, seed }, res: ResArgs::consistent(0, block, o, 10, 1, seed), bps }
        }
        _ => {
            let o = (1 + (seed % 24) as usize).min(block.max(1));
            let prec = 2 + (seed % 14) as usize;
            SubArgs::Lpc { warm: WarmArgs { len: o, mode: 1, seed }, qp: QpArgs { ncoefs: o, order: o, shift: (seed % 16) as i8, precision: prec, cmode: 1, seed }, res: ResArgs::consistent(0, block, o, 10, 1, seed), bps }
        }
    }
}

fn frame_grid() -> Vec<Case18> {
    let mut v = vec![];
    let assigns = [1u8, 2, 3, 8, 100, 101, 102];
    for &assign in &assigns {
        let h = |block: usize, bps: usize| HeaderArgs { block, assign, bps, rate: 44100, variable: false, offset: 3 };
        let ch = match assign {
            100..=102 => 2,
            n => n as usize,
        };
        let side = |c: usize| -> usize {
            match assign {
                100 | 102 => (c == 1) as usize,
                101 => (c == 0) as usize,
                _ => 0,
            }
        };
        for &bps in &[8usize, 16, 24] {
            for &block in &[1usize, 16, 64, 192] {
                for kind in 0..4u8 {
                    // consistent
                    let subs: Vec<SubArgs> = (0..ch).map(|c| consistent_sub(kind + c as u8, block, bps + side(c), 100 + c as u64 + kind as u64)).collect();
                    v.push(Case18::Frame(FrameArgs { header: h(block, bps), subs: subs.clone() }));
                    // wrong count
                    let mut fewer = subs.clone();
                    fewer.pop();
                    v.push(Case18::Frame(FrameArgs { header: h(block, bps), subs: fewer }));
                    let mut more = subs.clone();
                    more.push(consistent_sub(kind, block, bps, 55));
                    v.push(Case18::Frame(FrameArgs { header: h(block, bps), subs: more }));
                    // one subframe with another block size
                    for other in [block + 1, block.saturating_sub(1), 2 * block, 0] {
                        let mut s2 = subs.clone();
                        let last = s2.len() - 1;
                        s2[last] = consistent_sub(kind, other, bps + side(last), 77);
                        v.push(Case18::Frame(FrameArgs { header: h(block, bps), subs: s2 }));
                    }
                    // one subframe with another width
                    for ob in [bps + 4, bps.saturating_sub(4).max(8), bps + 1] {
                        let mut s2 = subs.clone();
                        s2[0] = consistent_sub(kind, block, ob + side(0), 78);
                        if ob + side(0) != bps + side(0) {
                            v.push(Case18::Frame(FrameArgs { header: h(block, bps), subs: s2 }));
                        }
                    }
                    // widths shifted by the side-channel allowance in the wrong channel
                    if ch == 2 {
                        let s2: Vec<SubArgs> = (0..ch).map(|c| consistent_sub(kind, block, bps + 1 - side(c), 79)).collect();
                        v.push(Case18::Frame(FrameArgs { header: h(block, bps), subs: s2 }));
                    }
                }
            }
        }
    }
    v
}

fn info_grid() -> Vec<Case18> {
    // The setters are not constructors: they are used only inside their serialisable ranges
    // (block sizes 16..=32767 ordered, frame sizes < 2^24 ordered, total < 2^36) to bring the
    // constructed StreamInfo into a state that has a serialisation at all.
    let mut v = vec![];
    let full = |a: usize, b: usize, f0: usize, f1: usize, t: usize| vec![InfoOp::BlockSizes(a, b), InfoOp::FrameSizes(f0, f1), InfoOp::Total(t), InfoOp::Md5(7)];
    // the ends of the serialisable setter ranges (total 0, 1, 2^32 +- 1, 2^36 - 1; frame sizes 0, 1, 2^24 - 1; block sizes 16, 32767)
    for t in [0usize, 1, (1 << 32) - 1, 1 << 32, (1 << 32) + 1, (1 << 36) - 2, (1 << 36) - 1] {
        for (f0, f1) in [(0usize, 0usize), (0, 1), (1, 1), (1, (1 << 24) - 1), ((1 << 24) - 1, (1 << 24) - 1), (14, 5000)] {
            for (a, b) in [(16usize, 16usize), (16, 32767), (32767, 32767), (4096, 4096)] {
                v.push(Case18::Info(InfoArgs { rate: 44100, channels: 2, bps: 16, ops: full(a, b, f0, f1, t) }));
                v.push(Case18::Info(InfoArgs { rate: 1, channels: 8, bps: 24, ops: vec![InfoOp::Total(t), InfoOp::BlockSizes(a, b), InfoOp::FrameSizes(f0, f1)] }));
            }
        }
    }
    let rates = [0usize, 1, 7, 44100, 95999, 96000, 96001, 176400, 192000, 655350, (1 << 20) - 1, 1 << 20, (1 << 20) + 44100, BIG + 44100, usize::MAX];
    let chans = [0usize, 1, 2, 7, 8, 9, 16, 255, 256, 257, 264, BIG + 2, usize::MAX];
    let bpss = bps_grid();
    for &rate in &rates {
        for &channels in &chans {
            for &bps in &bpss {
                // never-set (fresh), partially set, fully set
                v.push(Case18::Info(InfoArgs { rate, channels, bps, ops: vec![] }));
                v.push(Case18::Info(InfoArgs { rate, channels, bps, ops: vec![InfoOp::BlockSizes(1024, 1024)] }));
                v.push(Case18::Info(InfoArgs { rate, channels, bps, ops: vec![InfoOp::BlockSizes(1024, 1024), InfoOp::Md5(0x5A)] }));
                v.push(Case18::Info(InfoArgs { rate, channels, bps, ops: full(1024, 4096, 100, 200, 99) }));
            }
        }
    }
    for &(a, b) in &[(16usize, 16usize), (16, 32767), (32767, 32767), (192, 4608), (4096, 4096)] {
        for &(f0, f1) in &[(0usize, 0usize), (1, 1), (14, (1 << 24) - 1), ((1 << 24) - 1, (1 << 24) - 1), (0, 70000)] {
            for &t in &[0usize, 1, 4096, (1 << 32) - 1, 1 << 32, (1 << 36) - 1] {
                v.push(Case18::Info(InfoArgs { rate: 48000, channels: 3, bps: 24, ops: full(a, b, f0, f1, t) }));
            }
        }
    }
    v
}

fn stream_grid() -> Vec<Case18> {
    let mut v = vec![];
    let good = |ch: usize, bps: usize| InfoArgs { rate: 32000, channels: ch, bps, ops: vec![InfoOp::BlockSizes(64, 64)] };
    for via_new in [false, true] {
        v.push(Case18::Stream { info: InfoArgs { rate: 44100, channels: 2, bps: 16, ops: vec![] }, via_new, meta: vec![], frames: vec![] });
        v.push(Case18::Stream { info: good(2, 16), via_new, meta: vec![], frames: vec![] });
        for meta in [vec![(1u8, 0usize)], vec![(4, 10), (126, 3)], vec![(2, 100), (3, 0), (5, 1)]] {
            v.push(Case18::Stream { info: good(1, 8), via_new, meta: meta.clone(), frames: vec![] });
        }
        for nframes in 1..=3usize {
            for kind in 0..4u8 {
                for &(assign, ch) in &[(1u8, 1usize), (2, 2), (102, 2), (100, 2)] {
                    let frames: Vec<FrameArgs> = (0..nframes)
                        .map(|n| {
                            let side = |c: usize| (assign >= 100 && ((assign == 101) ^ (c == 1))) as usize;
                            FrameArgs {
                                header: HeaderArgs { block: 64, assign, bps: 16, rate: 32000, variable: false, offset: n as u64 },
                                subs: (0..ch).map(|c| consistent_sub(kind + c as u8 + n as u8, 64, 16 + side(c), 900 + n as u64)).collect(),
                            }
                        })
                        .collect();
                    v.push(Case18::Stream { info: good(ch, 16), via_new, meta: if kind == 1 { vec![(9, 4)] } else { vec![] }, frames });
                }
            }
        }
    }
    // variable blocking: start-sample numbers, block sizes that change from frame to frame
    for via_new in [false, true] {
        for sizes in [vec![64usize, 64, 64], vec![1000, 2000, 1500], vec![2000, 1000, 1500, 300], vec![16, 4608, 1, 192, 4096], vec![1, 1, 1], vec![4096, 17]] {
            for kind in 0..4u8 {
                for &(assign, ch) in &[(1u8, 1usize), (2, 2), (101, 2)] {
                    let mut sum = 0u64;
                    let frames: Vec<FrameArgs> = sizes
                        .iter()
                        .enumerate()
                        .map(|(n, &b)| {
                            let side = |c: usize| (assign >= 100 && ((assign == 101) ^ (c == 1))) as usize;
                            let f = FrameArgs {
                                header: HeaderArgs { block: b, assign, bps: 16, rate: 32000, variable: true, offset: sum },
                                subs: (0..ch).map(|c| consistent_sub(kind + c as u8 + n as u8, b, 16 + side(c), 700 + n as u64)).collect(),
                            };
                            sum += b as u64;
                            f
                        })
                        .collect();
                    v.push(Case18::Stream { info: InfoArgs { rate: 32000, channels: ch, bps: 16, ops: vec![] }, via_new, meta: vec![], frames });
                }
            }
        }
    }
    v
}

fn unknown_grid() -> Vec<Case18> {
    let mut v = vec![];
    for tag in [0u8, 1, 2, 6, 7, 126, 127, 128, 255] {
        for len in [0usize, 1, 3, 1000, (1 << 24) - 1, 1 << 24, (1 << 24) + 5] {
            if len >= (1 << 24) - 1 && !(tag == 1 || tag == 127) {
                continue;
            }
            v.push(Case18::Unknown { tag, len });
        }
    }
    v
}

// ------------------------------------------------------------------------------------------
// generated cases
// ------------------------------------------------------------------------------------------

fn res_strategy() -> BoxedStrategy<ResArgs> {
    // mostly consistent shapes (so that the accepted branch of the oracle is exercised), perturbed in one place
    (0usize..=6, 1usize..=40, 0usize..=34, 0u8..=16, 0u8..=5, 0u8..=4, any::<u64>(), 0u8..=12)
        .prop_map(|(order, k, warm, maxp, qmode, rmode, seed, perturb)| {
            let block = k << order;
            let part = block >> order;
            let warmup = if perturb == 1 { warm } else { warm.min(part) };
            let mut a = ResArgs::consistent(order, block, warmup, maxp.min(if perturb == 2 { 16 } else { 14 }), qmode.min(if block > 512 { 4 } else { 5 }), seed);
            a.rmode = rmode;
            match perturb {
                3 => a.params.push(1),
                4 => {
                    a.params.pop();
                }
                5 => a.nq += 1,
                6 => a.nr = a.nr.saturating_sub(1),
                7 => a.block += 1,
                8 => a.order += 1,
                _ => {}
            }
            a
        })
        .boxed()
}

fn qp_strategy() -> BoxedStrategy<QpArgs> {
    (0usize..=33, 0usize..=33, any::<bool>(), -17i8..=16, 0usize..=17, 0u8..=4, any::<u64>())
        .prop_map(|(order, nc, same, shift, precision, cmode, seed)| QpArgs { ncoefs: if same { order } else { nc }, order, shift, precision, cmode, seed })
        .boxed()
}

/// parameters inside every documented range (so that the accepted branch of the Lpc oracle gets mass)
fn valid_qp_strategy() -> BoxedStrategy<QpArgs> {
    (1usize..=24, 0i8..=15, 1usize..=15, proptest::sample::select(vec![0u8, 1, 1, 1, 4]), any::<u64>())
        .prop_map(|(order, shift, precision, cmode, seed)| QpArgs { ncoefs: order, order, shift, precision, cmode, seed })
        .boxed()
}

fn valid_res_strategy() -> BoxedStrategy<ResArgs> {
    (0usize..=5, 1usize..=48, 0usize..=32, 0u8..=14, proptest::sample::select(vec![0u8, 1, 1, 4, 4, 2]), any::<u64>())
        .prop_map(|(order, k, warm, maxp, qmode, seed)| {
            let block = k << order;
            ResArgs::consistent(order, block, warm.min(k), maxp, qmode, seed)
        })
        .boxed()
}

fn valid_sub_strategy() -> BoxedStrategy<SubArgs> {
    let bps = || proptest::sample::select(vec![8usize, 9, 12, 13, 16, 17, 20, 21, 24, 25]);
    prop_oneof![
        2 => (valid_res_strategy(), bps(), 0u8..=3, any::<u64>()).prop_map(|(mut res, bps, mode, seed)| {
            res.warmup = res.warmup.min(4);
            SubArgs::Fixed { warm: WarmArgs { len: res.warmup, mode: if mode == 2 { 1 } else { mode }, seed }, res, bps }
        }),
        3 => (valid_qp_strategy(), valid_res_strategy(), bps(), 0u8..=3, any::<u64>()).prop_map(|(mut qp, mut res, bps, mode, seed)| {
            let o = qp.order.min(res.block >> res.order).max(1);
            if (res.block >> res.order) == 0 {
                res.block = 1 << res.order;
                res.nq = res.block;
                res.nr = res.block;
            }
            qp.order = o;
            qp.ncoefs = o;
            res.warmup = o;
            SubArgs::Lpc { warm: WarmArgs { len: o, mode: if mode == 2 { 1 } else { mode }, seed }, qp, res, bps }
        }),
    ]
    .boxed()
}

fn sub_strategy() -> BoxedStrategy<SubArgs> {
    let bps = || prop_oneof![6 => proptest::sample::select(vec![8usize, 12, 16, 20, 24]), 2 => proptest::sample::select(vec![9usize, 13, 17, 21, 25]), 1 => 0usize..=34];
    prop_oneof![
        1 => (0usize..=40000, any::<i32>(), bps(), any::<bool>()).prop_map(|(block, dc, bps, fit)| {
            let (lo, hi) = width_bounds(bps);
            SubArgs::Constant { block, dc: if fit { (dc as i64).clamp(lo, hi) as i32 } else { dc }, bps }
        }),
        2 => (0usize..=600, bps(), 0u8..=3, any::<u64>()).prop_map(|(len, bps, mode, seed)| SubArgs::Verbatim { len, bps, mode, seed }),
        4 => (0usize..=5, 0u8..=3, res_strategy(), bps(), any::<bool>(), any::<u64>()).prop_map(|(wl, mode, mut res, bps, agree, seed)| {
            if agree {
                res.warmup = wl.min(res.block >> res.order.min(20));
            }
            SubArgs::Fixed { warm: WarmArgs { len: if agree { res.warmup } else { wl }, mode, seed }, res, bps }
        }),
        5 => (qp_strategy(), 0u8..=3, res_strategy(), bps(), 0u8..=5, any::<u64>()).prop_map(|(mut qp, mode, mut res, bps, agree, seed)| {
            let mut wl = qp.order;
            match agree {
                0 => wl = (seed % 34) as usize,
                1 => res.warmup = (seed % 34) as usize,
                _ => {
                    qp.ncoefs = qp.order;
                    res.warmup = qp.order.min(res.block >> res.order.min(20));
                    qp.order = res.warmup;
                    qp.ncoefs = res.warmup;
                    wl = res.warmup;
                }
            }
            SubArgs::Lpc { warm: WarmArgs { len: wl, mode, seed }, qp, res, bps }
        }),
    ]
    .boxed()
}

fn header_strategy() -> BoxedStrategy<HeaderArgs> {
    (
        prop_oneof![4 => 1usize..=32767, 1 => 0usize..=70000, 2 => proptest::sample::select(vec![192usize, 576, 1152, 2304, 4608, 256, 512, 1024, 2048, 4096, 8192, 16384])],
        prop_oneof![6 => 1u8..=8, 3 => 100u8..=102, 1 => any::<u8>()],
        prop_oneof![6 => proptest::sample::select(vec![8usize, 12, 16, 20, 24]), 1 => 0usize..=40],
        prop_oneof![3 => crate::gen::rate_strategy(), 2 => 0usize..=700_000, 1 => (0usize..=255).prop_map(|k| k * 1000), 1 => (0usize..=65535).prop_map(|k| k * 10)],
        any::<bool>(),
        prop_oneof![3 => 0u64..=300, 3 => (0u32..=36, any::<u64>()).prop_map(|(b, x)| if b == 0 { 0 } else { (1u64 << (b - 1)) | (x & ((1u64 << (b - 1)) - 1)) }), 1 => any::<u64>()],
    )
        .prop_map(|(block, assign, bps, rate, variable, offset)| HeaderArgs { block, assign, bps, rate, variable, offset })
        .boxed()
}

fn frame_strategy() -> BoxedStrategy<FrameArgs> {
    (header_strategy(), any::<u64>(), 0u8..=9, proptest::collection::vec((0u8..4, any::<u64>()), 8))
        .prop_map(|(mut h, seed, perturb, kinds)| {
            h.block = 1 + h.block % 300;
            if h.bps < 8 || h.bps > 24 || h.bps % 4 != 0 {
                h.bps = 16;
            }
            if !(1..=8).contains(&h.assign) && !(100..=102).contains(&h.assign) {
                h.assign = 2;
            }
            h.offset &= (1 << 31) - 1;
            let ch = h.channels();
            let side = |c: usize| -> usize {
                match h.assign {
                    100 | 102 => (c == 1) as usize,
                    101 => (c == 0) as usize,
                    _ => 0,
                }
            };
            let mut subs: Vec<SubArgs> = (0..ch).map(|c| consistent_sub(kinds[c].0, h.block, h.bps + side(c), kinds[c].1)).collect();
            let i = (seed % ch as u64) as usize;
            match perturb {
                0 => subs[i] = consistent_sub(kinds[i].0, h.block + 1 + (seed % 7) as usize, h.bps + side(i), seed),
                1 => subs[i] = consistent_sub(kinds[i].0, h.block, h.bps + side(i) + 4, seed),
                2 => {
                    subs.pop();
                }
                3 => subs.push(consistent_sub(0, h.block, h.bps, seed)),
                4 => subs[i] = consistent_sub(kinds[i].0, h.block, h.bps + 1 - side(i), seed),
                _ => {}
            }
            FrameArgs { header: h, subs }
        })
        .boxed()
}

fn info_strategy() -> BoxedStrategy<InfoArgs> {
    // setters inside their serialisable ranges only (see info_grid)
    let ops = prop_oneof![
        1 => Just(vec![]),
        1 => (16usize..=32767, 16usize..=32767).prop_map(|(a, b)| vec![InfoOp::BlockSizes(a.min(b), a.max(b))]),
        6 => (16usize..=32767, 16usize..=32767, 0usize..(1 << 24), 0usize..(1 << 24), prop_oneof![4 => 0usize..100_000, 2 => 0usize..(1 << 36), 1 => (0usize..4).prop_map(|d| (1usize << 36) - 1 - d), 1 => (0usize..=36, 0usize..3).prop_map(|(b, d)| ((1usize << b) + d).saturating_sub(1).min((1 << 36) - 1))], any::<u8>())
            .prop_map(|(a, b, f0, f1, t, m)| vec![InfoOp::BlockSizes(a.min(b), a.max(b)), InfoOp::FrameSizes(f0.min(f1), f0.max(f1)), InfoOp::Total(t), InfoOp::Md5(m)]),
    ];
    (
        prop_oneof![4 => crate::gen::rate_strategy(), 1 => 0usize..=1_100_000, 1 => any::<usize>()],
        prop_oneof![5 => 1usize..=8, 1 => 0usize..=300],
        prop_oneof![5 => proptest::sample::select(vec![8usize, 12, 16, 20, 24]), 1 => 0usize..=40, 1 => proptest::sample::select(vec![256 + 16usize, 264, 512 + 24])],
        ops,
    )
        .prop_map(|(rate, channels, bps, ops)| InfoArgs { rate, channels, bps, ops })
        .boxed()
}

fn case_strategy() -> BoxedStrategy<Case18> {
    prop_oneof![
        5 => res_strategy().prop_map(Case18::Residual),
        3 => qp_strategy().prop_map(Case18::Qp),
        6 => sub_strategy().prop_map(Case18::Sub),
        6 => valid_sub_strategy().prop_map(Case18::Sub),
        3 => valid_res_strategy().prop_map(Case18::Residual),
        2 => valid_qp_strategy().prop_map(Case18::Qp),
        3 => header_strategy().prop_map(Case18::Header),
        5 => frame_strategy().prop_map(Case18::Frame),
        3 => info_strategy().prop_map(Case18::Info),
        1 => (any::<u8>(), 0usize..=300).prop_map(|(tag, len)| Case18::Unknown { tag, len }),
        3 => (info_strategy(), any::<bool>(), proptest::collection::vec((any::<u8>(), 0usize..=50), 0..=3), proptest::collection::vec(frame_strategy(), 0..=5), any::<bool>()).prop_map(|(mut info, via_new, meta, mut frames, align)| {
            if align && !frames.is_empty() {
                // make the frames agree with each other and with the stream format so that the stream verifies
                let h0 = frames[0].header.clone();
                info.channels = h0.channels();
                info.bps = h0.bps;
                info.rate = h0.rate.min(96000);
                let f0 = frames[0].clone();
                let variable = f0.header.variable;
                let ragged = f0.header.offset % 2 == 1;
                let mut sum = 0u64;
                for (n, f) in frames.iter_mut().enumerate() {
                    let own_block = f.header.block;
                    *f = f0.clone();
                    if variable && ragged && n > 0 && (1..=4608).contains(&own_block) {
                        // variable blocking: block sizes may change from frame to frame
                        let kinds: Vec<u8> = f.subs.iter().map(|s| s.kind_code()).collect();
                        let widths: Vec<usize> = f.subs.iter().map(|s| s.bps()).collect();
                        f.header.block = own_block;
                        f.subs = kinds.iter().zip(&widths).enumerate().map(|(c, (k, w))| consistent_sub(*k, own_block, *w, 31 * n as u64 + c as u64)).collect();
                    }
                    f.header.variable = variable;
                    f.header.offset = if variable { sum } else { n as u64 };
                    sum += f.header.block as u64;
                }
            }
            Case18::Stream { info, via_new, meta, frames }
        }),
    ]
    .boxed()
}

pub fn run(ctx: &Ctx) {
    ctx.rule(
        "cases = one call of a public constructor (Residual, QuantizedParameters, Constant, Verbatim, FixedLpc, Lpc, FrameHeader, Frame, StreamInfo + Result-returning setters, Stream, MetadataBlockData::new_unknown) with explicit arguments; \
         complete grids of boundary and inconsistent arguments (partition order / block size / warm-up / parameter count / vector lengths; parameter values 0..255; quotient and remainder classes incl. u32::MAX; coefficient count vs order, shift -128..127, precision 0..usize::MAX; widths 0..usize::MAX incl. 2^8+k wraps; block sizes 0, 1, 32767, 32768, 65536, 2^32+8; frame numbers and sample offsets at every UTF-8 length boundary up to 2^36 and beyond; subframes that disagree with the frame header in count, block size or width; StreamInfo::new / Stream::new over the product of rate x channels x width grids, each never-set, partially set and fully set through valid setter calls; metadata tags 0..255 and payloads around 2^24 bytes) \
         plus proptest-generated mostly-consistent arguments perturbed in one place; every grid point is evaluated (no stop at the first failure) and failures are grouped by signature. \
         oracle: no panic in constructor or verify(); Ok(c) => verify() Ok, write() Ok without panic, bits written = count_bits() (also right after a write of the same component into a user sink that failed half-way), the matching parser consumes exactly those bits and returns a component with identical field-by-field (serde/JSON) representation and identical re-serialisation (components above 2^24 bits are only counted through a counting sink); Err is always acceptable. \
         non-trivial = every case except a constant subframe or a residual with consistent shape and partition order 0; distinct by argument values",
    );
    ctx.assume("QuantizedParameters has no serialisation of its own: an accepted parameter set is judged by embedding it in Lpc::new with a matching warm-up, a valid residual and 16-bit samples");
    ctx.assume("StreamInfo / Stream: the Result-less or wider-than-the-format setters (set_total_samples, set_frame_sizes, set_block_sizes) are not constructors; they are only called with values inside the serialisable ranges, to give the constructed value a serialisation at all");
    ctx.assume("a Stream assembled from accepted frames is judged only when Stream::verify accepts it (add_frame is not a constructor and returns no Result)");
    let grids: Vec<(&str, Vec<Case18>)> = vec![
        ("grid:residual", residual_grid()),
        ("grid:parameters", qp_grid()),
        ("grid:subframe", sub_grid()),
        ("grid:header", header_grid()),
        ("grid:header-sweep", header_sweep()),
        ("grid:frame", frame_grid()),
        ("grid:streaminfo", info_grid()),
        ("grid:stream", stream_grid()),
        ("grid:unknown-metadata", unknown_grid()),
    ];
    for (label, g) in &grids {
        ctx.bump(&format!("{label}:points"), g.len() as u64);
        ctx.enumerate_all(label, 16, g.len() as u64, |i| g[i as usize].clone(), check);
    }
    ctx.exhaustive.store(true, std::sync::atomic::Ordering::Relaxed);
    let per = ctx.tier.scale(25_000, 20);
    ctx.search("generated", 16, per, &case_strategy, check);
    if ctx.tier == crate::core::Tier::Thorough {
        crate::fuzzrun::campaign(ctx, "fz_ctor", 8, crate::fuzzrun::runs(400_000), 256);
    }
}

pub fn replay(path: &str) -> Result<Outcome, String> {
    let (_k, case): (String, Case18) = crate::core::load_replay(path)?;
    Ok(check(&case))
}

// ------------------------------------------------------------------------------------------
// fuzzer bytes -> case (coverage-guided search over the same argument space, thorough tier)
// ------------------------------------------------------------------------------------------

fn pick<T: Copy>(c: &mut crate::util::Cursor, xs: &[T]) -> T {
    xs[c.range(0, xs.len() - 1)]
}

fn fz_usize(c: &mut crate::util::Cursor, small_hi: usize) -> usize {
    match c.u8() % 8 {
        0..=4 => c.range(0, small_hi),
        5 => pick(c, &[0usize, 1, 15, 16, 255, 256, 32767, 32768, 65535, 65536]),
        6 => c.u32() as usize,
        _ => pick(c, &[BIG, usize::MAX, (1usize << 36) - 1, 1usize << 36, (1 << 24) - 1, 1 << 24]),
    }
}

fn fz_res(c: &mut crate::util::Cursor) -> ResArgs {
    let order = c.range(0, 6);
    let k = c.range(1, 40);
    let block = k << order;
    let mut a = ResArgs::consistent(order, block, c.range(0, 34).min(k), c.range(0, 16) as u8, c.range(0, 5) as u8, c.u32() as u64);
    if block > 512 && a.qmode == 5 {
        a.qmode = 4;
    }
    a.rmode = c.range(0, 4) as u8;
    // perturbations
    let p = c.u8();
    if p & 1 != 0 {
        match c.u8() % 10 {
            0 => a.params.push(c.u8()),
            1 => {
                a.params.pop();
            }
            2 => a.nq = fz_usize(c, 200).min(70_000),
            3 => a.nr = fz_usize(c, 200).min(70_000),
            4 => {
                a.block = fz_usize(c, 3000);
                if a.block <= 70_000 && p & 2 != 0 {
                    a.nq = a.block;
                    a.nr = a.block;
                }
            }
            5 => a.order = fz_usize(c, 20),
            6 => a.warmup = fz_usize(c, 80),
            7 => {
                if !a.params.is_empty() {
                    let i = c.range(0, a.params.len() - 1);
                    a.params[i] = c.u8();
                }
            }
            _ => {}
        }
    }
    a
}

fn fz_qp(c: &mut crate::util::Cursor) -> QpArgs {
    let valid = c.u8() % 4 != 0;
    if valid {
        let order = c.range(1, 24);
        QpArgs { ncoefs: order, order, shift: c.range(0, 15) as i8, precision: c.range(1, 15), cmode: pick(c, &[0u8, 1, 1, 4]), seed: c.u32() as u64 }
    } else {
        let order = fz_usize(c, 34);
        QpArgs { ncoefs: if c.u8() & 1 == 0 { order.min(40) } else { c.range(0, 40) }, order, shift: c.u8() as i8, precision: fz_usize(c, 17), cmode: c.range(0, 4) as u8, seed: c.u32() as u64 }
    }
}

fn fz_bps(c: &mut crate::util::Cursor) -> usize {
    match c.u8() % 8 {
        0..=3 => pick(c, &[8usize, 12, 16, 20, 24]),
        4 => pick(c, &[9usize, 13, 17, 21, 25]),
        5 => c.range(0, 40),
        _ => fz_usize(c, 300),
    }
}

fn fz_sub(c: &mut crate::util::Cursor) -> SubArgs {
    match c.u8() % 4 {
        0 => SubArgs::Constant { block: fz_usize(c, 5000), dc: c.u32() as i32 >> (c.u8() % 32), bps: fz_bps(c) },
        1 => SubArgs::Verbatim { len: fz_usize(c, 600).min(70_000), bps: fz_bps(c), mode: c.range(0, 3) as u8, seed: c.u32() as u64 },
        2 => {
            let mut res = fz_res(c);
            let agree = c.u8() % 4 != 0;
            let wl = if agree { res.warmup.min(4) } else { c.range(0, 6) };
            if agree {
                res.warmup = wl;
            }
            SubArgs::Fixed { warm: WarmArgs { len: wl, mode: c.range(0, 3) as u8, seed: c.u32() as u64 }, res, bps: fz_bps(c) }
        }
        _ => {
            let mut qp = fz_qp(c);
            let mut res = fz_res(c);
            let agree = c.u8() % 4 != 0;
            let mut wl = qp.order.min(40);
            if agree && qp.order <= 32 {
                let o = qp.order.min((res.block >> res.order.min(20)).max(1));
                qp.order = o;
                qp.ncoefs = o;
                res.warmup = o;
                wl = o;
            } else if c.u8() & 1 == 0 {
                wl = c.range(0, 34);
            }
            SubArgs::Lpc { warm: WarmArgs { len: wl, mode: c.range(0, 3) as u8, seed: c.u32() as u64 }, qp, res, bps: fz_bps(c) }
        }
    }
}

fn fz_header(c: &mut crate::util::Cursor) -> HeaderArgs {
    let assign = match c.u8() % 8 {
        0..=4 => c.range(1, 8) as u8,
        5 | 6 => 100 + c.range(0, 2) as u8,
        _ => c.u8(),
    };
    let offset = match c.u8() % 4 {
        0 => c.range(0, 300) as u64,
        1 => {
            let b = c.range(0, 37) as u32;
            if b == 0 { 0 } else { (1u64 << (b - 1)) | (c.u64() & ((1u64 << (b - 1)) - 1)) }
        }
        _ => c.u64(),
    };
    HeaderArgs { block: fz_usize(c, 5000), assign, bps: fz_bps(c), rate: fz_usize(c, 100_000), variable: c.u8() & 1 != 0, offset }
}

fn fz_frame(c: &mut crate::util::Cursor) -> FrameArgs {
    let mut h = fz_header(c);
    h.block = 1 + h.block % 300;
    if h.bps < 8 || h.bps > 24 || h.bps % 4 != 0 {
        h.bps = 16;
    }
    if !(1..=8).contains(&h.assign) && !(100..=102).contains(&h.assign) {
        h.assign = 2;
    }
    h.offset &= (1 << 31) - 1;
    let ch = h.channels();
    let side = |c: usize| -> usize {
        match h.assign {
            100 | 102 => (c == 1) as usize,
            101 => (c == 0) as usize,
            _ => 0,
        }
    };
    let mut subs: Vec<SubArgs> = (0..ch).map(|i| consistent_sub(c.u8(), h.block, h.bps + side(i), c.u32() as u64)).collect();
    if c.u8() % 3 == 0 {
        let i = c.range(0, ch - 1);
        match c.u8() % 6 {
            0 => subs[i] = consistent_sub(c.u8(), h.block + 1 + c.range(0, 7), h.bps + side(i), 1),
            1 => subs[i] = consistent_sub(c.u8(), h.block, h.bps + side(i) + 4, 2),
            2 => {
                subs.pop();
            }
            3 => subs.push(consistent_sub(0, h.block, h.bps, 3)),
            4 => subs[i] = consistent_sub(c.u8(), h.block, h.bps + 1 - side(i), 4),
            _ => subs[i] = fz_sub(c),
        }
    }
    FrameArgs { header: h, subs }
}

fn fz_info(c: &mut crate::util::Cursor) -> InfoArgs {
    let ops = match c.u8() % 4 {
        0 => vec![],
        1 => {
            let (a, b) = (c.range(16, 32767), c.range(16, 32767));
            vec![InfoOp::BlockSizes(a.min(b), a.max(b))]
        }
        _ => {
            let (a, b) = (c.range(16, 32767), c.range(16, 32767));
            let (f0, f1) = ((c.u32() & 0xFF_FFFF) as usize, (c.u32() & 0xFF_FFFF) as usize);
            vec![InfoOp::BlockSizes(a.min(b), a.max(b)), InfoOp::FrameSizes(f0.min(f1), f0.max(f1)), InfoOp::Total((c.u64() & ((1 << 36) - 1)) as usize), InfoOp::Md5(c.u8())]
        }
    };
    InfoArgs { rate: fz_usize(c, 100_000), channels: if c.u8() % 4 == 0 { fz_usize(c, 300) } else { c.range(1, 8) }, bps: fz_bps(c), ops }
}

pub fn case_from_bytes(data: &[u8]) -> Case18 {
    let mut c = crate::util::Cursor { d: data, i: 0 };
    match c.u8() % 10 {
        0 | 1 => Case18::Residual(fz_res(&mut c)),
        2 => Case18::Qp(fz_qp(&mut c)),
        3 | 4 => Case18::Sub(fz_sub(&mut c)),
        5 => Case18::Header(fz_header(&mut c)),
        6 | 7 => Case18::Frame(fz_frame(&mut c)),
        8 => Case18::Info(fz_info(&mut c)),
        _ => {
            if c.u8() & 1 == 0 {
                Case18::Unknown { tag: c.u8(), len: c.range(0, 300) }
            } else {
                let mut info = fz_info(&mut c);
                let via_new = c.u8() & 1 != 0;
                let meta: Vec<(u8, usize)> = (0..c.range(0, 3)).map(|_| (c.u8(), c.range(0, 50))).collect();
                let f0 = fz_frame(&mut c);
                let n = c.range(0, 3);
                info.channels = f0.header.channels();
                info.bps = f0.header.bps;
                info.rate = f0.header.rate.min(96_000);
                let frames: Vec<FrameArgs> = (0..n)
                    .map(|k| {
                        let mut f = f0.clone();
                        f.header.variable = false;
                        f.header.offset = k as u64;
                        f
                    })
                    .collect();
                Case18::Stream { info, via_new, meta, frames }
            }
        }
    }
}
