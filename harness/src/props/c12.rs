//! C12 A failing user sink yields an error, not a panic.

use super::common::*;
use crate::core::{Ctx, Outcome};
use crate::enc::SrcKind;
use crate::gen::{CfgOpts, CfgSpec, ChanSpec, InOpts, InputSpec, Seg};
use crate::oracle::bits::MinimalSink;
use crate::util::catch;
use flacenc::component::{BitRepr, MetadataBlockData};
use flacenc::error::OutputError;
use proptest::prelude::*;
use serde::{Deserialize, Serialize};

#[derive(Clone, Debug, Serialize, Deserialize)]
pub struct Case {
    pub base: StreamCase,
    pub extra_meta: bool,
    pub precompute: bool,
}

/// Enumerates every failure position of one component. Returns (ops, violation).
fn sweep<T: BitRepr>(what: &str, comp: &T, out: &mut Outcome, in_body_from: usize) -> usize {
    let mut reference = MinimalSink::new();
    match catch(|| comp.write(&mut reference)) {
        Ok(Ok(())) => {}
        _ => {
            out.class("skipped:reference-write-failed(C18)");
            return 0;
        }
    }
    let total = reference.ops;
    // the correct bit string comes from the crate's own byte sink, not from the user sink
    let correct = catch(|| {
        let mut bs = flacenc::bitsink::ByteSink::new();
        comp.write(&mut bs).map(|()| {
            let n = bs.len();
            crate::oracle::bits::BitModel::from_bytes(bs.as_slice(), n)
        })
    });
    let correct = match correct {
        Ok(Ok(m)) => m,
        _ => {
            out.class("skipped:reference-write-failed(C18)");
            return 0;
        }
    };
    if correct.bits != reference.model.bits {
        out.viol(format!("{what}:user-sink-receives-different-bits"), format!("a user sink that implements only the required operations receives {} bits, the byte sink {} bits, or they differ", reference.model.len(), correct.len()));
        return total;
    }
    for k in 0..total {
        let mut s = MinimalSink::failing_at(k);
        let r = catch(|| comp.write(&mut s));
        match r {
            Err(p) => {
                out.viol(format!("{what}:{}", normalise(&p.sig())), format!("sink failing on its operation #{k} of {total}: write panicked: {} at {}", p.msg, p.loc));
                return total;
            }
            Ok(Ok(())) => {
                out.viol(format!("{what}:error-swallowed"), format!("sink failed on operation #{k} of {total} but write returned Ok"));
                return total;
            }
            Ok(Err(OutputError::Sink(e))) => {
                if e.0 != k {
                    out.viol(format!("{what}:wrong-error"), format!("sink failed at {k}, error says {}", e.0));
                    return total;
                }
            }
            Ok(Err(e)) => {
                out.viol(format!("{what}:error-kind"), format!("sink failed at {k} but write returned {e:?}"));
                return total;
            }
        }
        let n = s.model.len();
        if n > reference.model.len() || s.model.bits[..] != reference.model.bits[..n] {
            out.viol(format!("{what}:accepted-bits-not-a-prefix"), format!("sink failed at op #{k}: the {n} bits accepted before are not a prefix of the correct bitstream"));
            return total;
        }
        if k >= in_body_from {
            out.nontrivial = true;
        }
    }
    total
}

pub fn check(case: &Case) -> Outcome {
    let b = &case.base;
    let mut out = Outcome::new(b.fp() ^ ((case.extra_meta as u64) << 1) ^ ((case.precompute as u64) << 2));
    let samples = b.inp.samples();
    let Ok((mut stream, _)) = encode_case(b, &samples) else {
        out.class("skipped:encode-failed(C01)");
        return out;
    };
    if stream.count_bits() > crate::enc::sane_bits(samples.len(), b.inp.bps) {
        out.class("skipped:oversized(C09)");
        return out;
    }
    if case.extra_meta {
        if let Ok(m) = MetadataBlockData::new_unknown(4, &[1, 2, 3, 4, 5, 6, 7]) {
            stream.add_metadata_block(m);
        }
        if let Ok(m) = MetadataBlockData::new_unknown(2, &[]) {
            stream.add_metadata_block(m);
        }
        out.class("extra-metadata");
    }
    let mut ops = 0usize;
    // whole stream (positions after the first frame header are "inside a frame body")
    let hdr_ops = 1 + 2 + 9 + if case.extra_meta { 6 } else { 0 } + 3;
    ops += sweep("stream", &stream, &mut out, hdr_ops);
    if out.failed() {
        out.weight = ops as u64;
        return out;
    }
    for n in 0..stream.frame_count() {
        let mut f = stream.frame(n).unwrap().clone();
        if case.precompute {
            f.precompute_bitstream();
            out.class("precomputed");
        }
        ops += sweep("frame", &f, &mut out, 3);
        ops += sweep("frame-header", f.header(), &mut out, usize::MAX);
        for c in 0..f.subframe_count() {
            let sf = f.subframe(c).unwrap();
            let kind = match sf {
                flacenc::component::SubFrame::Constant(_) => "constant",
                flacenc::component::SubFrame::Verbatim(_) => "verbatim",
                flacenc::component::SubFrame::FixedLpc(_) => "fixed",
                flacenc::component::SubFrame::Lpc(_) => "lpc",
            };
            out.class(format!("subframe:{kind}"));
            ops += sweep(&format!("subframe-{kind}"), sf, &mut out, 1);
            if let flacenc::component::SubFrame::FixedLpc(x) = sf {
                ops += sweep("residual", x.residual(), &mut out, 0);
            }
        }
        if out.failed() {
            break;
        }
    }
    ops += sweep("stream-info", stream.stream_info(), &mut out, usize::MAX);
    out.weight = ops.max(1) as u64;
    out
}

pub fn crafted_base(i: u64) -> StreamCase {
    crafted(i).base
}

fn crafted(i: u64) -> Case {
    // 12 small streams covering all subframe kinds, mono/stereo, 1..=4 frames
    let classes: [u8; 6] = [0, 2, 5, 3, 10, 14];
    let mut cfg = CfgSpec::default();
    cfg.block_size = [64, 96, 128, 70][(i % 4) as usize];
    if i % 3 == 1 {
        cfg.use_lpc = false;
    }
    if i % 3 == 2 {
        cfg.use_fixed = false;
    }
    let channels = 1 + (i % 2) as usize;
    let frames = 1 + (i % 4) as usize;
    let inp = InputSpec {
        channels,
        bps: [16, 8, 24][(i % 3) as usize],
        rate: 44100,
        len: frames * cfg.block_size - (i % 5) as usize,
        chans: (0..channels).map(|c| ChanSpec { segs: vec![Seg { class: classes[((i + c as u64) % 6) as usize], amp: 3, p: 1000 + i as u32 }, Seg { class: classes[((i + 3) % 6) as usize], amp: 1, p: 7 }] }).collect(),
        rel: (i % 9) as u8,
        seed: i,
        explicit: None,
    };
    Case { base: StreamCase { cfg, inp, entry: Entry::Single, src: SrcKind::Mem }, extra_meta: i % 2 == 1, precompute: i % 4 >= 2 }
}

pub fn run(ctx: &Ctx) {
    ctx.rule(
        "fault enumeration: for each stream (12 crafted streams covering all four subframe kinds, mono/stereo, 1..=4 frames, with/without extra metadata blocks, precomputed or not; plus generated streams) and each of its components (stream, frames, frame headers, subframes, residuals, STREAMINFO) the user sink fails on EVERY operation index k in 0..total_ops; \
         oracle: write returns Err(OutputError::Sink(k)), never panics, never Ok, and the bits accepted before the failure are a prefix of the reference bit string; evaluations = number of (component, k) pairs; non-trivial = failure inside a frame body; distinct by stream case",
    );
    ctx.enumerate("crafted", 12, 12, crafted, check);
    let per = ctx.tier.scale(1500, 4);
    ctx.search("generated", 16, per, &|| {
        (stream_case_strategy(CfgOpts { max_block: 200, ..Default::default() }, InOpts { budget: 900, max_channels: 3, ..Default::default() }, false), any::<bool>(), any::<bool>())
            .prop_map(|(base, extra_meta, precompute)| Case { base, extra_meta, precompute })
    }, check);
}

pub fn replay(path: &str) -> Result<Outcome, String> {
    let (_k, case): (String, Case) = crate::core::load_replay(path)?;
    Ok(check(&case))
}
