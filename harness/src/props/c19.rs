//! C19 Configuration TOML round-trips; omitted fields take the documented defaults; a parsed
//! configuration verifies exactly like the equivalent in-memory value.
//!
//! Two families of cases:
//!   * `RoundTrip(cfg)`: `toml::to_string(&encoder)` then `toml::from_str` must give back every field.
//!   * `Doc { cfg, mask, style }`: the harness writes a TOML document itself (own emitter, own table of
//!     documented defaults), leaving out the fields whose mask bit is clear; the parsed configuration
//!     must equal "cfg where present, documented default where omitted", and `verify()` of the parsed
//!     value must agree with `verify()` of that expected value built in memory.

use crate::core::{Ctx, Outcome};
use crate::gen::{self, CfgOpts, CfgSpec};
use crate::props::common::normalise;
use crate::util::{catch, fnv};
use flacenc::config;
use flacenc::error::Verify;
use proptest::prelude::*;
use serde::{Deserialize, Serialize};

/// Field indices of the mask (bit i set = field i is written to the document).
const F_BLOCK: u32 = 0;
const F_MT: u32 = 1;
const F_WORKERS: u32 = 2;
const F_LS: u32 = 3;
const F_RS: u32 = 4;
const F_MS: u32 = 5;
const F_UC: u32 = 6;
const F_UF: u32 = 7;
const F_UL: u32 = 8;
const F_FMO: u32 = 9;
/// the whole `order_sel` table (tag and payload)
const F_OSEL: u32 = 10;
/// `partitions` inside an `ApproxEnt` table
const F_PARTS: u32 = 11;
const F_LO: u32 = 12;
const F_QP: u32 = 13;
const F_DM: u32 = 14;
const F_MAE: u32 = 15;
/// the whole `window` table
const F_WIN: u32 = 16;
/// `alpha` inside a `Tukey` table
const F_ALPHA: u32 = 17;
const F_MAXP: u32 = 18;
const NFIELDS: u32 = 19;
const ALL: u32 = (1 << NFIELDS) - 1;

const FIELD_NAMES: [&str; NFIELDS as usize] = [
    "block_size", "multithread", "workers", "use_leftside", "use_rightside", "use_midside", "use_constant", "use_fixed", "use_lpc", "fixed.max_order", "fixed.order_sel", "order_sel.partitions", "lpc_order", "quant_precision",
    "use_direct_mse", "mae_optimization_steps", "qlpc.window", "window.alpha", "prc.max_parameter",
];

/// The documented defaults, transcribed by hand from the doc comments of config.rs and the constants
/// they point to in constant.rs (NOT taken from `Default::default()`):
///   block_size 4096 (DEFAULT_BLOCK_SIZE); multithread true when the "par" feature is used (the
///   harness builds flacenc with "par"); workers None; use_leftside/rightside/midside true;
///   use_constant/fixed/lpc true; fixed.max_order 4 (fixed::MAX_LPC_ORDER); order selection ApproxEnt
///   with 16 partitions (DEFAULT_ENTROPY_ESTIMATOR_PARTITIONS), which is also the documented serde
///   default of a missing `partitions`; lpc_order 10; quant_precision 15; use_direct_mse false;
///   mae_optimization_steps 0; window Tukey with alpha 0.4 (DEFAULT_TUKEY_ALPHA); max_parameter 14.
pub fn documented_defaults() -> CfgSpec {
    CfgSpec {
        block_size: 4096,
        multithread: true,
        workers: None,
        ls: true,
        rs: true,
        ms: true,
        use_constant: true,
        use_fixed: true,
        use_lpc: true,
        fixed_max_order: 4,
        order_sel: Some(16),
        lpc_order: 10,
        quant_precision: 15,
        use_direct_mse: false,
        mae_steps: 0,
        window: Some(0.4f32.to_bits()),
        max_parameter: 14,
        cfg_block: None,
    }
}

#[derive(Clone, Debug, PartialEq, Serialize, Deserialize)]
pub enum Case19 {
    RoundTrip(CfgSpec),
    /// `style`: bit 0 inline tables for the two tagged enums, bit 1 reversed key order inside tables,
    /// bit 2 emit empty table headers for tables without any written key, bit 3 dotted keys instead of
    /// table headers for `stereo_coding`
    Doc { cfg: CfgSpec, mask: u32, style: u8 },
}

fn fmt_f32(bits: u32) -> String {
    let a = f32::from_bits(bits);
    if a.is_nan() {
        if a.is_sign_negative() { "-nan".into() } else { "nan".into() }
    } else if a.is_infinite() {
        if a > 0.0 { "inf".into() } else { "-inf".into() }
    } else {
        // f32 -> f64 is exact; `{:?}` of an f64 is the shortest string that parses back to it
        let s = format!("{:?}", a as f64);
        if s.contains('.') || s.contains('e') || s.contains("inf") { s } else { format!("{s}.0") }
    }
}

/// The harness' own TOML emitter for the configuration schema.
pub fn emit(cfg: &CfgSpec, mask: u32, style: u8) -> String {
    let has = |f: u32| mask & (1 << f) != 0;
    let inline = style & 1 != 0;
    let reversed = style & 2 != 0;
    let empty_headers = style & 4 != 0;
    let dotted = style & 8 != 0;
    let mut doc = String::new();
    let table = |doc: &mut String, name: &str, mut lines: Vec<String>, force: bool| {
        if lines.is_empty() && !force {
            return;
        }
        if reversed {
            lines.reverse();
        }
        if !name.is_empty() {
            doc.push_str(&format!("[{name}]\n"));
        }
        for l in lines {
            doc.push_str(&l);
            doc.push('\n');
        }
    };
    // top level
    let mut top = vec![];
    if has(F_BLOCK) {
        top.push(format!("block_size = {}", cfg.block_size));
    }
    if has(F_MT) {
        top.push(format!("multithread = {}", cfg.multithread));
    }
    if has(F_WORKERS) {
        if let Some(w) = cfg.workers {
            top.push(format!("workers = {w}"));
        }
    }
    let mut stereo = vec![];
    if has(F_LS) {
        stereo.push(("use_leftside", cfg.ls));
    }
    if has(F_RS) {
        stereo.push(("use_rightside", cfg.rs));
    }
    if has(F_MS) {
        stereo.push(("use_midside", cfg.ms));
    }
    if dotted {
        for (k, v) in &stereo {
            top.push(format!("stereo_coding.{k} = {v}"));
        }
    }
    table(&mut doc, "", top, false);
    if !dotted {
        table(&mut doc, "stereo_coding", stereo.iter().map(|(k, v)| format!("{k} = {v}")).collect(), empty_headers);
    }
    // subframe_coding
    let mut sc = vec![];
    if has(F_UC) {
        sc.push(format!("use_constant = {}", cfg.use_constant));
    }
    if has(F_UF) {
        sc.push(format!("use_fixed = {}", cfg.use_fixed));
    }
    if has(F_UL) {
        sc.push(format!("use_lpc = {}", cfg.use_lpc));
    }
    table(&mut doc, "subframe_coding", sc, empty_headers);
    // fixed
    let osel_pairs: Vec<String> = if has(F_OSEL) {
        match cfg.order_sel {
            None => vec!["type = \"BitCount\"".to_string()],
            Some(p) => {
                let mut v = vec!["type = \"ApproxEnt\"".to_string()];
                if has(F_PARTS) {
                    v.push(format!("partitions = {p}"));
                }
                v
            }
        }
    } else {
        vec![]
    };
    let mut fixed = vec![];
    if has(F_FMO) {
        fixed.push(format!("max_order = {}", cfg.fixed_max_order));
    }
    if inline && !osel_pairs.is_empty() {
        let mut p = osel_pairs.clone();
        if reversed {
            p.reverse();
        }
        fixed.push(format!("order_sel = {{ {} }}", p.join(", ")));
    }
    table(&mut doc, "subframe_coding.fixed", fixed, empty_headers);
    if !inline {
        table(&mut doc, "subframe_coding.fixed.order_sel", osel_pairs, false);
    }
    // qlpc
    let win_pairs: Vec<String> = if has(F_WIN) {
        match cfg.window {
            None => vec!["type = \"Rectangle\"".to_string()],
            Some(b) => {
                let mut v = vec!["type = \"Tukey\"".to_string()];
                if has(F_ALPHA) {
                    v.push(format!("alpha = {}", fmt_f32(b)));
                }
                v
            }
        }
    } else {
        vec![]
    };
    let mut q = vec![];
    if has(F_LO) {
        q.push(format!("lpc_order = {}", cfg.lpc_order));
    }
    if has(F_QP) {
        q.push(format!("quant_precision = {}", cfg.quant_precision));
    }
    if has(F_DM) {
        q.push(format!("use_direct_mse = {}", cfg.use_direct_mse));
    }
    if has(F_MAE) {
        q.push(format!("mae_optimization_steps = {}", cfg.mae_steps));
    }
    if inline && !win_pairs.is_empty() {
        let mut p = win_pairs.clone();
        if reversed {
            p.reverse();
        }
        q.push(format!("window = {{ {} }}", p.join(", ")));
    }
    table(&mut doc, "subframe_coding.qlpc", q, empty_headers);
    if !inline {
        table(&mut doc, "subframe_coding.qlpc.window", win_pairs, false);
    }
    let mut prc = vec![];
    if has(F_MAXP) {
        prc.push(format!("max_parameter = {}", cfg.max_parameter));
    }
    table(&mut doc, "subframe_coding.prc", prc, empty_headers);
    doc
}

/// "cfg where present, documented default where omitted". `None` for the one shape without a documented
/// outcome (`type = "Tukey"` without `alpha`).
pub fn expected(cfg: &CfgSpec, mask: u32) -> (CfgSpec, bool) {
    let has = |f: u32| mask & (1 << f) != 0;
    let d = documented_defaults();
    let mut e = d.clone();
    let mut tukey_without_alpha = false;
    if has(F_BLOCK) {
        e.block_size = cfg.block_size;
    }
    if has(F_MT) {
        e.multithread = cfg.multithread;
    }
    if has(F_WORKERS) {
        e.workers = cfg.workers;
    }
    if has(F_LS) {
        e.ls = cfg.ls;
    }
    if has(F_RS) {
        e.rs = cfg.rs;
    }
    if has(F_MS) {
        e.ms = cfg.ms;
    }
    if has(F_UC) {
        e.use_constant = cfg.use_constant;
    }
    if has(F_UF) {
        e.use_fixed = cfg.use_fixed;
    }
    if has(F_UL) {
        e.use_lpc = cfg.use_lpc;
    }
    if has(F_FMO) {
        e.fixed_max_order = cfg.fixed_max_order;
    }
    if has(F_OSEL) {
        e.order_sel = match cfg.order_sel {
            None => None,
            Some(p) => Some(if has(F_PARTS) { p } else { 16 }),
        };
    }
    if has(F_LO) {
        e.lpc_order = cfg.lpc_order;
    }
    if has(F_QP) {
        e.quant_precision = cfg.quant_precision;
    }
    if has(F_DM) {
        e.use_direct_mse = cfg.use_direct_mse;
    }
    if has(F_MAE) {
        e.mae_steps = cfg.mae_steps;
    }
    if has(F_WIN) {
        e.window = match cfg.window {
            None => None,
            Some(b) => {
                if has(F_ALPHA) {
                    Some(b)
                } else {
                    tukey_without_alpha = true;
                    Some(0.4f32.to_bits())
                }
            }
        };
    }
    if has(F_MAXP) {
        e.max_parameter = cfg.max_parameter;
    }
    (e, tukey_without_alpha)
}

/// Field-by-field comparison; NaN equals NaN, everything else by bit pattern.
fn differences(a: &CfgSpec, b: &CfgSpec) -> Vec<String> {
    let mut v = vec![];
    macro_rules! cmp {
        ($f:ident) => {
            if a.$f != b.$f {
                v.push(format!("{}: {:?} vs {:?}", stringify!($f), a.$f, b.$f));
            }
        };
    }
    cmp!(block_size);
    cmp!(multithread);
    cmp!(workers);
    cmp!(ls);
    cmp!(rs);
    cmp!(ms);
    cmp!(use_constant);
    cmp!(use_fixed);
    cmp!(use_lpc);
    cmp!(fixed_max_order);
    cmp!(order_sel);
    cmp!(lpc_order);
    cmp!(quant_precision);
    cmp!(use_direct_mse);
    cmp!(mae_steps);
    cmp!(max_parameter);
    let same_window = match (a.window, b.window) {
        (None, None) => true,
        (Some(x), Some(y)) => x == y || (f32::from_bits(x).is_nan() && f32::from_bits(y).is_nan()),
        _ => false,
    };
    if !same_window {
        v.push(format!("window: {:?} vs {:?}", a.window.map(f32::from_bits), b.window.map(f32::from_bits)));
    }
    v
}

fn verify_of(c: &config::Encoder) -> Result<Result<(), String>, crate::util::PanicInfo> {
    catch(|| c.verify().map_err(|e| format!("{e}")))
}

/// The same document through the other deserialisation routes of the toml crate (document model with owned strings,
/// byte slice): each must agree with `toml::from_str` (the configuration is a serde type; nothing in the property ties
/// it to one deserializer of the TOML crate).
fn alt_parse_routes(text: &str, primary: &CfgSpec) -> Option<(String, String)> {
    let via_value = catch(|| text.parse::<toml::Value>().map_err(|e| format!("{e}")).and_then(|v| v.try_into::<config::Encoder>().map_err(|e| format!("{e}"))));
    let via_slice = catch(|| toml::from_slice::<config::Encoder>(text.as_bytes()).map_err(|e| format!("{e}")));
    for (name, r) in [("toml::Value::try_into", via_value), ("toml::from_slice", via_slice)] {
        match r {
            Err(p) => return Some((format!("parse-panic:{name}:{}", normalise(&p.sig())), format!("{} at {}\n{text}", p.msg, p.loc))),
            Ok(Err(e)) => return Some((format!("route-disagrees:{name}:rejects"), format!("toml::from_str accepts the document but {name} rejects it: {e}\n{text}"))),
            Ok(Ok(c)) => {
                let diffs = differences(primary, &CfgSpec::from_encoder(&c));
                if !diffs.is_empty() {
                    return Some((format!("route-disagrees:{name}:{}", diffs[0].split(':').next().unwrap_or("")), format!("{}\n{text}", diffs.join("; "))));
                }
            }
        }
    }
    None
}

/// Serialisation through the document model and the pretty printer must carry the same configuration.
fn alt_serialise_routes(enc: &config::Encoder, cfg: &CfgSpec) -> Option<(String, String)> {
    let via_value = catch(|| toml::Value::try_from(enc).map_err(|e| format!("{e}")).and_then(|v| v.try_into::<config::Encoder>().map_err(|e| format!("{e}"))));
    let via_pretty = catch(|| toml::to_string_pretty(enc).map_err(|e| format!("{e}")).and_then(|t| toml::from_str::<config::Encoder>(&t).map_err(|e| format!("{e}\n{t}"))));
    for (name, r) in [("toml::Value::try_from/try_into", via_value), ("toml::to_string_pretty", via_pretty)] {
        match r {
            Err(p) => return Some((format!("serialise-panic:{name}:{}", normalise(&p.sig())), format!("{} at {}", p.msg, p.loc))),
            Ok(Err(e)) => return Some((format!("round-trip-fails:{name}"), format!("{e}; {cfg:?}"))),
            Ok(Ok(c)) => {
                let diffs = differences(cfg, &CfgSpec::from_encoder(&c));
                if !diffs.is_empty() {
                    return Some((format!("round-trip-differs:{name}:{}", diffs[0].split(':').next().unwrap_or("")), format!("{}; {cfg:?}", diffs.join("; "))));
                }
            }
        }
    }
    None
}

pub fn check(case: &Case19) -> Outcome {
    let mut out = Outcome::new(fnv(serde_json::to_string(case).unwrap_or_default().as_bytes()));
    let d = documented_defaults();
    match case {
        Case19::RoundTrip(cfg) => {
            let enc = cfg.to_encoder();
            out.nontrivial = !differences(cfg, &d).is_empty();
            let text = match catch(|| toml::to_string(&enc).map_err(|e| format!("{e}"))) {
                Err(p) => {
                    out.viol(format!("serialise-panic:{}", normalise(&p.sig())), format!("{} at {}", p.msg, p.loc));
                    return out;
                }
                Ok(Err(e)) => {
                    out.viol("serialise-fails", format!("toml::to_string fails for a configuration value: {e}; {cfg:?}"));
                    return out;
                }
                Ok(Ok(t)) => t,
            };
            let back: config::Encoder = match catch(|| toml::from_str::<config::Encoder>(&text).map_err(|e| format!("{e}"))) {
                Err(p) => {
                    out.viol(format!("parse-panic:{}", normalise(&p.sig())), format!("{} at {}", p.msg, p.loc));
                    return out;
                }
                Ok(Err(e)) => {
                    out.viol("own-output-does-not-parse", format!("toml::from_str rejects the text toml::to_string produced: {e}\n{text}"));
                    return out;
                }
                Ok(Ok(c)) => c,
            };
            let diffs = differences(cfg, &CfgSpec::from_encoder(&back));
            if !diffs.is_empty() {
                out.viol(format!("round-trip-differs:{}", diffs[0].split(':').next().unwrap_or("")), format!("{}\n{text}", diffs.join("; ")));
                return out;
            }
            if let Some((sig, detail)) = alt_parse_routes(&text, &CfgSpec::from_encoder(&back)).or_else(|| alt_serialise_routes(&enc, cfg)) {
                out.viol(sig, detail);
                return out;
            }
            // parsing straight into the wrapper that certifies verification, through another serde format (JSON):
            // accepted exactly when verification accepts the value
            if let (Ok(js), Ok(v)) = (serde_json::to_string(&enc), verify_of(&enc)) {
                let r = catch(|| serde_json::from_str::<flacenc::error::Verified<config::Encoder>>(&js).map(|v| CfgSpec::from_encoder(&v)).map_err(|e| format!("{e}")));
                match r {
                    Err(p) => {
                        out.viol(format!("parse-panic:Verified:{}", normalise(&p.sig())), format!("{} at {}", p.msg, p.loc));
                        return out;
                    }
                    Ok(Ok(spec)) => {
                        if v.is_err() {
                            out.viol("parsed-into-Verified-without-verification", format!("serde_json::from_str::<Verified<Encoder>> accepts a configuration that verify() rejects ({:?}): {js}", v.err()));
                            return out;
                        }
                        if !differences(cfg, &spec).is_empty() {
                            out.viol("round-trip-differs:Verified-via-json", differences(cfg, &spec).join("; "));
                            return out;
                        }
                        out.class("json:Verified:accepted");
                    }
                    Ok(Err(e)) => {
                        // JSON cannot carry NaN / infinity (written as null): such values are not judged
                        let finite = cfg.window.map_or(true, |b| f32::from_bits(b).is_finite());
                        if v.is_ok() && finite {
                            out.viol("valid-configuration-rejected:Verified-via-json", format!("{e}: {js}"));
                            return out;
                        }
                        out.class("json:Verified:rejected");
                    }
                }
            }
            match (verify_of(&enc), verify_of(&back)) {
                (Ok(a), Ok(b)) => {
                    if a.is_ok() != b.is_ok() {
                        out.viol("verify-disagrees-after-round-trip", format!("in memory: {a:?}, parsed: {b:?}"));
                    }
                    out.class(if a.is_ok() { "verifies" } else { "rejected-by-verify" });
                }
                (Err(p), _) | (_, Err(p)) => out.class(format!("verify-panics(C07):{}", normalise(&p.sig()))),
            }
            if cfg.window.map_or(false, |b| !f32::from_bits(b).is_finite()) {
                out.class("window:non-finite-alpha");
            }
        }
        Case19::Doc { cfg, mask, style } => {
            let mask = *mask & ALL;
            let text = emit(cfg, mask, *style);
            let (exp, tukey_without_alpha) = expected(cfg, mask);
            let omitted = NFIELDS - mask.count_ones();
            out.nontrivial = omitted >= 1 && !differences(&exp, &d).is_empty();
            out.class(format!("omitted:{}", match omitted { 0 => "0", 1 => "1", 2..=5 => "2-5", 6..=12 => "6-12", _ => "13+" }));
            out.class(format!("style:{style}"));
            let parsed = catch(|| toml::from_str::<config::Encoder>(&text).map_err(|e| format!("{e}")));
            let back = match parsed {
                Err(p) => {
                    out.viol(format!("parse-panic:{}", normalise(&p.sig())), format!("{} at {}\n{text}", p.msg, p.loc));
                    return out;
                }
                Ok(Err(e)) => {
                    if tukey_without_alpha {
                        out.class("tukey-without-alpha:parse-error(accepted outcome)");
                        return out;
                    }
                    let first_omitted = (0..NFIELDS).find(|f| mask & (1 << f) == 0).map(|f| FIELD_NAMES[f as usize]).unwrap_or("none");
                    out.viol(format!("partial-document-rejected:first-omitted={first_omitted}"), format!("toml::from_str rejects a document that omits fields: {e}\n{text}"));
                    return out;
                }
                Ok(Ok(c)) => c,
            };
            if tukey_without_alpha {
                out.class("tukey-without-alpha:parsed");
            }
            let got = CfgSpec::from_encoder(&back);
            let diffs = differences(&exp, &got);
            if !diffs.is_empty() {
                let field = diffs[0].split(':').next().unwrap_or("").to_string();
                let was_omitted = match field.as_str() {
                    "block_size" => mask & (1 << F_BLOCK) == 0,
                    "multithread" => mask & (1 << F_MT) == 0,
                    "workers" => mask & (1 << F_WORKERS) == 0,
                    "ls" => mask & (1 << F_LS) == 0,
                    "rs" => mask & (1 << F_RS) == 0,
                    "ms" => mask & (1 << F_MS) == 0,
                    "use_constant" => mask & (1 << F_UC) == 0,
                    "use_fixed" => mask & (1 << F_UF) == 0,
                    "use_lpc" => mask & (1 << F_UL) == 0,
                    "fixed_max_order" => mask & (1 << F_FMO) == 0,
                    "order_sel" => mask & (1 << F_OSEL) == 0 || mask & (1 << F_PARTS) == 0,
                    "lpc_order" => mask & (1 << F_LO) == 0,
                    "quant_precision" => mask & (1 << F_QP) == 0,
                    "use_direct_mse" => mask & (1 << F_DM) == 0,
                    "mae_steps" => mask & (1 << F_MAE) == 0,
                    "max_parameter" => mask & (1 << F_MAXP) == 0,
                    _ => mask & (1 << F_WIN) == 0 || mask & (1 << F_ALPHA) == 0,
                };
                out.viol(
                    format!("{}:{field}", if was_omitted { "omitted-field-not-documented-default" } else { "written-field-not-preserved" }),
                    format!("expected (written value, or documented default where omitted) vs parsed: {}\n{text}", diffs.join("; ")),
                );
                return out;
            }
            if let Some((sig, detail)) = alt_parse_routes(&text, &got) {
                out.viol(sig, detail);
                return out;
            }
            // verification of the parsed value == verification of the equivalent in-memory value
            let in_memory = exp.to_encoder();
            match (verify_of(&in_memory), verify_of(&back)) {
                (Ok(a), Ok(b)) => {
                    if a.is_ok() != b.is_ok() {
                        out.viol("verify-disagrees-parsed-vs-in-memory", format!("in memory: {a:?}, parsed: {b:?}\n{text}"));
                    }
                    out.class(if a.is_ok() { "verifies" } else { "rejected-by-verify" });
                }
                (Err(p), _) | (_, Err(p)) => out.class(format!("verify-panics(C07):{}", normalise(&p.sig()))),
            }
        }
    }
    out
}

/// Any configuration value the TOML format can carry: valid ones and ones outside the documented
/// ranges (integers up to 2^63-1; NaN / infinite / negative window parameters).
pub fn any_cfg_strategy() -> BoxedStrategy<CfgSpec> {
    let big = || prop_oneof![6 => 0usize..=70, 2 => 0usize..=70_000, 1 => proptest::sample::select(vec![255usize, 256, 65535, 65536, (1 << 32) - 1, 1 << 32, (1usize << 63) - 1]), 1 => 0usize..(1usize << 63)];
    let alpha = prop_oneof![
        4 => gen::alpha_bits_strategy(),
        2 => any::<u32>(),
        2 => proptest::sample::select(vec![f32::NAN.to_bits(), (-f32::NAN).to_bits(), f32::INFINITY.to_bits(), f32::NEG_INFINITY.to_bits(), (-0.0f32).to_bits(), f32::MIN_POSITIVE.to_bits(), f32::MAX.to_bits(), 1.0000001f32.to_bits(), (-1e-30f32).to_bits(), 1, 0x7fc0_0001]),
    ];
    (
        prop_oneof![3 => gen::cfg_strategy(CfgOpts { allow_multithread: true, experimental: true, ..Default::default() }), 1 => Just(documented_defaults())],
        proptest::collection::vec(proptest::option::weighted(0.25, big()), 8),
        proptest::option::weighted(0.4, proptest::option::of(alpha)),
        any::<u32>(),
    )
        .prop_map(|(mut c, o, w, flips)| {
            if let Some(x) = o[0] {
                c.block_size = x;
            }
            if let Some(x) = o[1] {
                c.workers = if x == 0 { None } else { Some(x) };
            }
            if let Some(x) = o[2] {
                c.fixed_max_order = x;
            }
            if let Some(x) = o[3] {
                c.order_sel = Some(x);
            }
            if let Some(x) = o[4] {
                c.lpc_order = x;
            }
            if let Some(x) = o[5] {
                c.quant_precision = x;
            }
            if let Some(x) = o[6] {
                c.mae_steps = x;
            }
            if let Some(x) = o[7] {
                c.max_parameter = x;
            }
            if let Some(w) = w {
                c.window = w;
            }
            // booleans: independent fair coins for a third of the cases
            if flips % 3 == 0 {
                c.multithread = flips & 8 != 0;
                c.ls = flips & 16 != 0;
                c.rs = flips & 32 != 0;
                c.ms = flips & 64 != 0;
                c.use_constant = flips & 128 != 0;
                c.use_fixed = flips & 256 != 0;
                c.use_lpc = flips & 512 != 0;
                c.use_direct_mse = flips & 1024 != 0;
            }
            c
        })
        .boxed()
}

fn mask_strategy() -> BoxedStrategy<u32> {
    prop_oneof![
        // each field independently present with probability 1/2
        4 => 0u32..=ALL,
        // few omissions
        3 => proptest::collection::vec(0u32..NFIELDS, 1..=3).prop_map(|v| v.iter().fold(ALL, |m, f| m & !(1 << f))),
        // few fields present
        3 => proptest::collection::vec(0u32..NFIELDS, 0..=3).prop_map(|v| v.iter().fold(0, |m, f| m | (1 << f))),
        // whole sections omitted
        2 => proptest::collection::vec(proptest::sample::select(vec![0b111u32, 0b111 << 3, 0b111 << 6, 0b111 << 9, 0b111111 << 12, 1 << 18, 0b11 << 10, 0b11 << 16]), 1..=3).prop_map(|v| v.iter().fold(ALL, |m, s| m & !s)),
    ]
    .boxed()
}

pub fn run(ctx: &Ctx) {
    ctx.rule(
        "cases: (a) RoundTrip = any configuration value the format can carry (valid values and values outside the documented ranges; integers up to 2^63-1; NaN, infinite, negative, subnormal window parameters; both window variants, both order-selection variants, optional worker count) -> toml::to_string -> toml::from_str, compared field by field (NaN equals NaN, otherwise bit-exact) and by verify() outcome; \
         (b) Doc = the harness' own TOML emitter writes the configuration leaving out the fields of a generated mask (19 mask bits: 17 fields + the two tagged tables; every single omission and every pair of omissions enumerated completely; random subsets; whole sections) in 16 syntactic styles (section headers / inline tables / dotted keys, key order, empty headers); the parsed value must equal 'written value where present, documented default where omitted' (defaults transcribed by hand from the doc comments and constant.rs), and verify() of the parsed value must agree with verify() of that expected value built in memory; `type = \"Tukey\"` without alpha may be a parse error or alpha 0.4; \
         non-trivial = RoundTrip of a non-default configuration, or a document with >= 1 omitted field whose expected value differs from the all-default configuration; distinct by (configuration, mask, style)",
    );
    ctx.assume("TOML integers are signed 64-bit: usize values above 2^63-1 are outside what the format can carry and are not generated");
    ctx.assume("the harness builds flacenc with the `par` feature, so the documented default of `multithread` is true");
    ctx.assume("documents keep the tag of a tagged table whenever they keep its payload (a payload without its `type` has no documented reading)");
    // (b) complete enumeration: every single omission and every pair, for a fixed set of non-default configurations x styles
    let probes: Vec<CfgSpec> = {
        let mut v = vec![];
        let mut a = documented_defaults();
        a.block_size = 1234;
        a.multithread = false;
        a.workers = Some(3);
        a.ls = false;
        a.rs = false;
        a.ms = false;
        a.use_constant = false;
        a.use_fixed = false;
        a.use_lpc = false;
        a.fixed_max_order = 2;
        a.order_sel = Some(7);
        a.lpc_order = 5;
        a.quant_precision = 9;
        a.window = Some(0.25f32.to_bits());
        a.max_parameter = 6;
        v.push(a.clone());
        let mut b = a.clone();
        b.order_sel = None;
        b.window = None;
        b.use_direct_mse = true;
        b.mae_steps = 3;
        v.push(b);
        let mut c = a.clone();
        c.block_size = 99_999;
        c.fixed_max_order = 9;
        c.order_sel = Some(0);
        c.lpc_order = 0;
        c.quant_precision = 77;
        c.window = Some(1.5f32.to_bits());
        c.max_parameter = 15;
        v.push(c);
        v
    };
    let mut masks: Vec<u32> = vec![ALL, 0];
    for i in 0..NFIELDS {
        masks.push(ALL & !(1 << i));
        masks.push(1 << i);
        for j in (i + 1)..NFIELDS {
            masks.push(ALL & !(1 << i) & !(1 << j));
            masks.push((1 << i) | (1 << j));
        }
    }
    let n = (probes.len() * masks.len() * 16) as u64;
    ctx.bump("enumerated:single-and-pair-omissions", n);
    ctx.enumerate_all("doc-enumerated", 16, n, |i| {
        let i = i as usize;
        Case19::Doc { cfg: probes[i % probes.len()].clone(), mask: masks[(i / probes.len()) % masks.len()], style: (i / (probes.len() * masks.len())) as u8 }
    }, check);
    // generated
    let per = ctx.tier.scale(30000, 10);
    ctx.search("round-trip", 16, per, &|| any_cfg_strategy().prop_map(Case19::RoundTrip), check);
    ctx.search("doc-generated", 16, per, &|| (any_cfg_strategy(), mask_strategy(), 0u8..16).prop_map(|(cfg, mask, style)| Case19::Doc { cfg, mask, style }), check);
}

pub fn replay(path: &str) -> Result<Outcome, String> {
    let (_k, case): (String, Case19) = crate::core::load_replay(path)?;
    Ok(check(&case))
}
