//! C08 Reported bit counts equal the bits actually written.

use super::common::*;
use crate::core::{Ctx, Outcome};
use crate::gen::{CfgOpts, InOpts};
use crate::oracle::bits::CountSink;
use crate::util::{catch, fnv, Sm64};
use flacenc::bitsink::MemSink;
use flacenc::component::{parser, BitRepr, ChannelAssignment, FrameHeader, FrameOffset, Residual, SubFrame};
use proptest::prelude::*;
use serde::{Deserialize, Serialize};

/// count_bits vs the three sinks. `small` = safe to materialise.
fn compare<T: BitRepr>(what: &str, c: &T, small: bool, out: &mut Outcome) -> bool {
    let r = catch(|| {
        let counted = c.count_bits() as u128;
        let mut cs = CountSink::default();
        c.write(&mut cs).map_err(|e| format!("{e:?}"))?;
        let mut lens = vec![("CountSink", cs.bits)];
        // a write into a user sink that fails half-way must not change what the next write produces
        // (the writers keep thread-local scratch buffers)
        if small && cs.bits <= (1u128 << 22) {
            let mut probe = crate::oracle::bits::MinimalSink::new();
            if c.write(&mut probe).is_ok() && probe.ops >= 2 {
                let mut failing = crate::oracle::bits::MinimalSink::failing_at((counted as usize / 3) % probe.ops);
                let _ = c.write(&mut failing);
            }
            lens.push(("a minimal user sink", probe.model.len() as u128));
        }
        // materialise only what the counting sink (not count_bits itself) says is small
        if small && cs.bits <= (1u128 << 28) {
            let mut a = MemSink::<u8>::new();
            c.write(&mut a).map_err(|e| format!("{e:?}"))?;
            let mut b = MemSink::<u64>::new();
            c.write(&mut b).map_err(|e| format!("{e:?}"))?;
            lens.push(("MemSink<u8>", a.len() as u128));
            lens.push(("MemSink<u64>", b.len() as u128));
        }
        Ok::<_, String>((counted, lens))
    });
    match r {
        Ok(Ok((counted, lens))) => {
            for (name, l) in lens {
                if l != counted {
                    out.viol(format!("{what}:count_bits-differs"), format!("{what}: count_bits() = {counted} but {l} bits were written to {name}"));
                    return false;
                }
            }
            true
        }
        Ok(Err(e)) => {
            out.class(format!("skipped:{what}:write-error(C18)"));
            let _ = e;
            true
        }
        Err(p) => {
            out.class(format!("skipped:{what}:panic(C18)"));
            let _ = p;
            true
        }
    }
}

pub fn check_stream(case: &StreamCase) -> Outcome {
    let mut out = Outcome::new(case.fp());
    let samples = case.inp.samples();
    let Ok((mut stream, _)) = encode_case(case, &samples) else {
        out.class("skipped:encode-failed(C01)");
        return out;
    };
    // 0..=3 unknown metadata blocks appended through the public API
    let nmeta = (case.inp.seed >> 7) as usize % 4;
    for i in 0..nmeta {
        if let Ok(m) = flacenc::component::MetadataBlockData::new_unknown(1 + ((case.inp.seed >> 11) as usize + 17 * i) as u8 % 126, &vec![0x3Cu8; ((case.inp.seed >> 19) as usize + 5 * i) % 50]) {
            stream.add_metadata_block(m);
        }
    }
    if nmeta > 0 {
        out.class("extra-metadata-blocks");
    }
    let small = stream.count_bits() <= crate::enc::sane_bits(samples.len(), case.inp.bps);
    if !small {
        out.class("oversized:count-sink-only");
    }
    if !compare("stream", &stream, small, &mut out) {
        return out;
    }
    compare("stream-info", stream.stream_info(), true, &mut out);
    let mut child_sum = 32 + 32 + stream.stream_info().count_bits();
    for i in 0..nmeta {
        child_sum += 32 + 8 * (((case.inp.seed >> 19) as usize + 5 * i) % 50);
    }
    for n in 0..stream.frame_count() {
        let f = stream.frame(n).unwrap();
        if f.count_bits() % 8 != 0 {
            out.viol("frame:not-whole-bytes", format!("frame {n} reports {} bits", f.count_bits()));
            return out;
        }
        child_sum += f.count_bits();
        if !compare("frame", f, small, &mut out) || !compare("frame-header", f.header(), true, &mut out) {
            return out;
        }
        if f.header().count_bits() > 40 + 8 {
            out.class("header-with-extra-bytes");
            out.nontrivial = true;
        }
        let mut body = f.header().count_bits();
        for c in 0..f.subframe_count() {
            let sf = f.subframe(c).unwrap();
            body += sf.count_bits();
            if !compare("subframe", sf, small, &mut out) {
                return out;
            }
            let res = match sf {
                SubFrame::FixedLpc(x) => Some(x.residual()),
                SubFrame::Lpc(x) => Some(x.residual()),
                _ => None,
            };
            if let Some(r) = res {
                out.nontrivial = true;
                if !compare("residual", r, small, &mut out) {
                    return out;
                }
            }
        }
        let expect = (body + 7) / 8 * 8 + 16;
        if expect != f.count_bits() {
            out.viol("frame:children-inconsistent", format!("frame {n}: header+subframes rounded up + 16 = {expect} but the frame reports {}", f.count_bits()));
            return out;
        }
        // after precomputation
        let mut g = f.clone();
        g.precompute_bitstream();
        if g.count_bits() != f.count_bits() {
            out.viol("frame:precomputed-count-differs", format!("frame {n}: {} before, {} after precompute_bitstream", f.count_bits(), g.count_bits()));
            return out;
        }
        if small && !compare("frame-precomputed", &g, true, &mut out) {
            return out;
        }
    }
    if child_sum != stream.count_bits() {
        out.viol("stream:children-inconsistent", format!("32 + metadata + frames = {child_sum} but the stream reports {}", stream.count_bits()));
        return out;
    }
    // the same components obtained from the parser
    if small {
        if let Ok(Ok(bytes)) = catch(|| crate::enc::stream_bytes(&stream, usize::MAX)) {
            if let Ok(Ok((_, parsed))) = catch(|| parser::stream::<nom::error::Error<&[u8]>>(&bytes).map_err(|_| ())) {
                if parsed.count_bits() != bytes.len() * 8 {
                    out.viol("parsed-stream:count_bits-differs", format!("{} vs {} bits", parsed.count_bits(), bytes.len() * 8));
                    return out;
                }
                for n in 0..parsed.frame_count() {
                    let f = parsed.frame(n).unwrap();
                    if !compare("parsed-frame", f, true, &mut out) {
                        return out;
                    }
                    for c in 0..f.subframe_count() {
                        if !compare("parsed-subframe", f.subframe(c).unwrap(), true, &mut out) {
                            return out;
                        }
                    }
                }
                out.class("parsed-components-checked");
            } else {
                out.class("skipped:parser-rejects(C15)");
            }
        }
    }
    out
}

#[derive(Clone, Debug, Serialize, Deserialize)]
pub struct ResCase {
    pub partition_order: usize,
    pub part_len: usize,
    pub warmup: usize,
    pub params: Vec<u8>,
    pub seed: u64,
    /// 0 small quotients; 1 a few huge ones; 2 sum forced to 2^32-1; 3 to 2^32; 4 to 2^32+1; 5 max*n straddles u32::MAX
    pub mode: u8,
}

pub fn check_residual(c: &ResCase) -> Outcome {
    let mut out = Outcome::new(fnv(serde_json::to_string(c).unwrap_or_default().as_bytes()));
    let nparts = 1usize << c.partition_order;
    let block = nparts * c.part_len;
    let warmup = c.warmup.min(c.part_len).min(4);
    let mut rng = Sm64::new(c.seed);
    let mut q = vec![0u32; block];
    let mut r = vec![0u32; block];
    for t in warmup..block {
        let p = c.params[t / c.part_len % c.params.len()] as u32;
        q[t] = match c.mode {
            0 => rng.below(20) as u32,
            1 => {
                if rng.below(block as u64) < 3 { (rng.next() >> 32) as u32 | 0x8000_0000 } else { rng.below(6) as u32 }
            }
            _ => rng.below(4) as u32,
        };
        r[t] = if p == 0 { 0 } else { (rng.next() as u32) & ((1u32 << p) - 1) };
    }
    if block > warmup + 2 && (2..=4).contains(&c.mode) {
        // force the quotient sum to 2^32 + d with d in {-1, 0, 1} using two large entries
        let target: u64 = (1u64 << 32) - 1 + (c.mode as u64 - 2);
        let rest: u64 = q[warmup + 2..].iter().map(|x| *x as u64).sum();
        let need = target.saturating_sub(rest);
        q[warmup] = (need / 2) as u32;
        q[warmup + 1] = (need - need / 2) as u32;
    }
    if c.mode == 5 && block > warmup {
        // max * block_size just below / at / above u32::MAX
        let m = (u32::MAX as u64 / block as u64) as u32;
        q[warmup] = m.saturating_add((c.seed % 3) as u32).saturating_sub(1);
    }
    let params: Vec<u8> = (0..nparts).map(|i| c.params[i % c.params.len()]).collect();
    let sumq: u128 = q.iter().map(|x| *x as u128).sum();
    out.class(if sumq < (1 << 32) { "sum-quotients<2^32" } else { "sum-quotients>=2^32" });
    out.class(format!("partition-order:{}", c.partition_order));
    let res = match catch(|| Residual::new(c.partition_order, block, warmup, &params, &q, &r)) {
        Ok(Ok(x)) => x,
        Ok(Err(e)) => {
            out.class("residual:constructor-rejects");
            out.inconclusive = Some(format!("Residual::new rejected consistent arguments (generator or library changed?): {e:?}"));
            return out;
        }
        Err(_) => {
            out.class("skipped:constructor-panic(C18)");
            return out;
        }
    };
    // independent count
    let mut want: u128 = 6 + 4 * nparts as u128;
    for t in warmup..block {
        want += q[t] as u128 + 1 + params[t / c.part_len] as u128;
    }
    let small = want < (1 << 24);
    match catch(|| res.count_bits()) {
        Ok(n) => {
            if n as u128 != want {
                out.viol("constructed-residual:count_bits-wrong", format!("count_bits() = {n}, independent count = {want} (partition order {}, block {block}, warm-up {warmup}, sum of quotients {sumq})", c.partition_order));
                return out;
            }
        }
        Err(p) => {
            out.viol(format!("constructed-residual:count_bits-{}", normalise(&p.sig())), format!("count_bits panicked: {} (sum of quotients {sumq})", p.msg));
            return out;
        }
    }
    compare("constructed-residual", &res, small, &mut out);
    out.nontrivial = true;
    out
}

#[derive(Clone, Debug, Serialize, Deserialize)]
pub struct HdrCase {
    pub block: usize,
    pub rate: usize,
    pub bps: usize,
    pub channels: u8,
    /// < 2^31 frame number when `variable` is false, < 2^36 start sample otherwise
    pub number: u64,
    pub variable: bool,
    /// a later `set_frame_offset` call on the same header: (variable blocking?, number)
    #[serde(default)]
    pub then: Option<(bool, u64)>,
}

pub fn check_header(c: &HdrCase) -> Outcome {
    let mut out = Outcome::new(fnv(serde_json::to_string(c).unwrap_or_default().as_bytes()));
    let ca = match c.channels {
        9 => ChannelAssignment::LeftSide,
        10 => ChannelAssignment::RightSide,
        11 => ChannelAssignment::MidSide,
        n => ChannelAssignment::Independent(n.clamp(1, 8)),
    };
    let off = if c.variable { FrameOffset::StartSample(c.number) } else { FrameOffset::Frame(c.number as u32) };
    let h = match catch(|| FrameHeader::new(c.block, ca, c.bps, c.rate, off)) {
        Ok(Ok(h)) => h,
        Ok(Err(_)) => {
            out.class("constructor-rejects");
            return out;
        }
        Err(_) => {
            out.class("skipped:constructor-panic(C18)");
            return out;
        }
    };
    let mut h = h;
    let mut c = c.clone();
    if let Some((variable, number)) = c.then {
        let number = if variable { number & ((1u64 << 36) - 1) } else { number & ((1u64 << 31) - 1) };
        h.set_frame_offset(if variable { FrameOffset::StartSample(number) } else { FrameOffset::Frame(number as u32) });
        out.class(if variable != c.variable { "history:offset-reset-in-the-other-mode" } else { "history:offset-reset" });
        c.number = number;
        c.variable = variable;
    }
    let bits = 64 - c.number.leading_zeros();
    out.class(format!("number-bits:{}", match bits {
        0..=7 => "<=7",
        8..=11 => "8-11",
        12..=16 => "12-16",
        17..=21 => "17-21",
        22..=26 => "22-26",
        27..=31 => "27-31",
        _ => "32-36",
    }));
    compare(if c.variable { "header-start-sample" } else { "header-frame-number" }, &h, true, &mut out);
    out.nontrivial = bits > 7;
    out
}

/// A frame header written by hand with a chosen (possibly non-canonical) coding of the block size and
/// of the sample rate, then parsed: `count_bits()` of the parsed header must equal what it writes.
#[derive(Clone, Debug, Serialize, Deserialize)]
pub struct NcCase {
    pub block: usize,
    /// 0 = the 4-bit table code when one exists (else 8-/16-bit as needed), 1 = force the 8-bit form (block <= 256), 2 = force the 16-bit form
    pub bs_form: u8,
    pub rate: usize,
    /// 0 = "from STREAMINFO" (code 0000), 1 = kHz byte, 2 = Hz 16-bit, 3 = daHz 16-bit, 4 = table code when one exists
    pub sr_form: u8,
    pub ch_code: u8,
    pub ss_code: u8,
    pub number: u64,
    pub variable: bool,
}

fn utf8like(v: u64) -> Vec<u8> {
    if v < 0x80 {
        return vec![v as u8];
    }
    let bits = 64 - v.leading_zeros() as usize;
    // n continuation bytes carry 6 bits each; the head byte carries 6 - n bits (0 for n = 6)
    let n = (1..=6).find(|n| bits <= 6 * n + (6 - n)).unwrap_or(6);
    let mut out = vec![0u8; n + 1];
    let mut x = v;
    for i in (1..=n).rev() {
        out[i] = 0x80 | (x & 0x3F) as u8;
        x >>= 6;
    }
    let head_mask: u8 = (0xFFu16 << (7 - n)) as u8; // n+1 leading ones
    out[0] = head_mask | (x as u8);
    out
}

pub fn check_noncanonical(c: &NcCase) -> Outcome {
    let mut out = Outcome::new(fnv(serde_json::to_string(c).unwrap_or_default().as_bytes()));
    let table_bs: Option<u8> = match c.block {
        192 => Some(1),
        576 => Some(2),
        1152 => Some(3),
        2304 => Some(4),
        4608 => Some(5),
        256 => Some(8),
        512 => Some(9),
        1024 => Some(10),
        2048 => Some(11),
        4096 => Some(12),
        8192 => Some(13),
        16384 => Some(14),
        32768 => Some(15),
        _ => None,
    };
    let (bs_code, bs_extra): (u8, Vec<u8>) = match (c.bs_form, table_bs) {
        (0, Some(t)) => (t, vec![]),
        (1, _) | (0, None) if c.block <= 256 => (6, vec![(c.block - 1) as u8]),
        _ => (7, ((c.block - 1) as u16).to_be_bytes().to_vec()),
    };
    let table_sr: Option<u8> = match c.rate {
        88200 => Some(1),
        176400 => Some(2),
        192000 => Some(3),
        8000 => Some(4),
        16000 => Some(5),
        22050 => Some(6),
        24000 => Some(7),
        32000 => Some(8),
        44100 => Some(9),
        48000 => Some(10),
        96000 => Some(11),
        _ => None,
    };
    let (sr_code, sr_extra): (u8, Vec<u8>) = match c.sr_form {
        1 if c.rate % 1000 == 0 && c.rate / 1000 <= 255 => (12, vec![(c.rate / 1000) as u8]),
        2 if c.rate <= 65535 => (13, (c.rate as u16).to_be_bytes().to_vec()),
        3 if c.rate % 10 == 0 && c.rate / 10 <= 65535 => (14, ((c.rate / 10) as u16).to_be_bytes().to_vec()),
        4 if table_sr.is_some() => (table_sr.unwrap(), vec![]),
        _ => (0, vec![]),
    };
    let canonical = (c.bs_form == 0) && matches!(c.sr_form, 0 | 4);
    out.class(if canonical { "coding:canonical" } else { "coding:non-canonical" });
    out.class(format!("bs-code:{bs_code}"));
    out.class(format!("sr-code:{sr_code}"));
    let mut b = vec![0xFF, 0xF8 | c.variable as u8, (bs_code << 4) | sr_code, ((c.ch_code % 11) << 4) | ((c.ss_code % 8) << 1)];
    b.extend(utf8like(c.number));
    b.extend(bs_extra);
    b.extend(sr_extra);
    b.push(crate::oracle::refdec::crc8(&b));
    let parsed = catch(|| parser::frame_header::<nom::error::Error<&[u8]>>(true)(&b).map(|(rest, h)| (rest.len(), h)).map_err(|e| format!("{e:?}").chars().take(100).collect::<String>()));
    match parsed {
        Err(p) => {
            out.class(format!("skipped:parser-panic(C16):{}", normalise(&p.sig())));
        }
        Ok(Err(_)) => out.class("parser-rejects(not judged)"),
        Ok(Ok((rest, h))) => {
            out.class("parsed");
            out.nontrivial = !canonical;
            if rest == 0 {
                compare("parsed-header", &h, true, &mut out);
                // and what it writes is what was read
                if !out.failed() {
                    let again = catch(|| {
                        let mut m = MemSink::<u8>::new();
                        h.write(&mut m).map(|()| m.into_inner()).map_err(|e| format!("{e:?}"))
                    });
                    if let Ok(Ok(w)) = again {
                        if w.len() * 8 != h.count_bits() {
                            out.viol("parsed-header:count_bits-differs", format!("count_bits() = {} but {} bytes are written (hand-written header of {} bytes)", h.count_bits(), w.len(), b.len()));
                        }
                    }
                }
            }
        }
    }
    out
}

/// Valid frames written by the harness' own writer with features the library's encoder never emits (wasted bits,
/// RICE2, escape-coded partitions, variable blocking): whatever the parser makes of them must count its bits right.
pub fn foreign_strategy() -> BoxedStrategy<crate::oracle::forenc::ForeignFrame> {
    use crate::oracle::forenc::{ForeignFrame, ForeignSub};
    let sub = (0u8..=2, 0u8..=4, prop_oneof![3 => Just(0u8), 2 => 1u8..=3, 1 => 4u8..=7], 0u8..=1, 0u8..=3, proptest::collection::vec(prop_oneof![6 => 0u8..=14, 2 => 15u8..=30, 1 => Just(255u8)], 1..=4))
        .prop_map(|(kind, order, wasted, method, part_order, params)| ForeignSub { kind, order, wasted, method, part_order, params });
    (
        prop_oneof![3 => (1usize..=40).prop_map(|k| k * 8), 2 => 1usize..=300, 1 => Just(4096usize)],
        proptest::sample::select(vec![8usize, 12, 16, 20, 24]),
        prop_oneof![Just(44100usize), Just(8000), 1usize..=65535],
        prop_oneof![3 => 0u64..=200, 1 => any::<u64>().prop_map(|x| x & ((1 << 31) - 1))],
        any::<bool>(),
        proptest::collection::vec(sub, 1..=3),
        any::<u64>(),
    )
        .prop_map(|(block, bps, rate, number, variable, mut subs, seed)| {
            for s in subs.iter_mut() {
                s.wasted = s.wasted.min(bps as u8 - 2);
            }
            ForeignFrame { block, bps, rate, number, variable, subs, seed }
        })
        .boxed()
}

pub fn check_foreign(ff: &crate::oracle::forenc::ForeignFrame) -> Outcome {
    use crate::oracle::refdec::{decode_frame, FrameCtx};
    let mut out = Outcome::new(fnv(serde_json::to_string(ff).unwrap_or_default().as_bytes()));
    let Some(bytes) = ff.bytes() else {
        out.class("foreign:not-encodable");
        return out;
    };
    let want = ff.samples();
    // self-test of the writer against the reference reader
    let mut v = vec![];
    match decode_frame(&bytes, 0, &FrameCtx { rate: Some(ff.rate as u32), bps: Some(ff.bps as u32), channels: Some(ff.subs.len()), max_block: None }, ff.number, &mut v) {
        Ok((_ft, chans, end)) if end == bytes.len() && chans == want => {}
        other => {
            out.inconclusive = Some(format!("harness: foreign-frame writer self-test failed ({:?}); {ff:?}", other.map(|(_, _, e)| e)));
            return out;
        }
    }
    let feats = ff.foreign_features();
    for f in &feats {
        out.class(format!("foreign:{f}"));
    }
    let Ok(mut info) = flacenc::component::StreamInfo::new(ff.rate, ff.subs.len(), ff.bps) else {
        out.class("foreign:stream-info-refused");
        return out;
    };
    let _ = info.set_block_sizes(ff.block.clamp(16, 32767), ff.block.clamp(16, 32767));
    type E<'a> = nom::error::Error<&'a [u8]>;
    let parsed = catch(|| parser::frame::<E>(&info, true)(&bytes).map(|(rest, f)| (rest.len(), f)).map_err(|e| format!("{e:?}").chars().take(100).collect::<String>()));
    match parsed {
        Err(p) => out.class(format!("skipped:parser-panic(C16):{}", normalise(&p.sig()))),
        Ok(Err(_)) => out.class(if feats.is_empty() { "foreign:plain-frame-rejected(not judged)" } else { "foreign:parser-rejects(not judged)" }),
        Ok(Ok((rest, f))) => {
            out.class(if feats.is_empty() { "foreign:plain-frame-parsed" } else { "foreign:parsed-with-foreign-features" });
            out.nontrivial = true;
            if rest != 0 {
                return out;
            }
            if compare("parsed-foreign-frame", &f, true, &mut out) {
                for c in 0..f.subframe_count() {
                    if !compare("parsed-foreign-subframe", f.subframe(c).unwrap(), true, &mut out) {
                        return out;
                    }
                    let r = match f.subframe(c).unwrap() {
                        SubFrame::FixedLpc(x) => Some(x.residual()),
                        SubFrame::Lpc(x) => Some(x.residual()),
                        _ => None,
                    };
                    if let Some(r) = r {
                        if !compare("parsed-foreign-residual", r, true, &mut out) {
                            return out;
                        }
                    }
                }
                compare("parsed-foreign-header", f.header(), true, &mut out);
                let mut pre = f.clone();
                pre.precompute_bitstream();
                compare("parsed-foreign-frame:precomputed", &pre, true, &mut out);
            }
        }
    }
    out
}

pub fn run(ctx: &Ctx) {
    ctx.rule(
        "every component of generated streams (general inputs, and loud 20/24-bit inputs with Rice parameters limited to 0..2 so that quotient sums reach 2^32) (stream, STREAMINFO, frames before/after precompute_bitstream, headers, subframes, residuals) and of the parsed stream: count_bits() == bits written to MemSink<u8> == MemSink<u64> == a counting sink, frames are whole bytes, parents equal the sum of their children; \
         directly constructed residuals (partition order 0..=14, parameters 0..=14, quotients up to 2^32-1 with the quotient sum forced to 2^32-1 / 2^32 / 2^32+1 and max*n straddling u32::MAX) compared with an independent u128 count; frame headers over the whole 31-bit frame-number and 36-bit start-sample ranges (boundary-dense); hand-written frame headers with every (also non-canonical) coding of block size and sample rate, parsed and re-counted; whole valid frames written by the harness' own writer with features this library never emits (wasted bits, RICE2 with 5-bit parameters, escape-coded partitions, variable blocking; each frame first decoded by the reference reader), parsed by the library and, where the parser accepts them, re-counted (frame, header, subframes, residuals, precomputed); every small component is first written into a user sink that fails half-way, then counted (scratch buffers must not leak); \
         non-trivial = component containing a residual or a multi-byte coded number",
    );
    let per = ctx.tier.scale(2000, 6);
    ctx.search("stream", 16, per, &|| stream_case_strategy(CfgOpts { max_block: 8192, ..Default::default() }, InOpts::default(), false), check_stream);
    // loud wide content with restricted Rice parameters: quotient sums of 2^32 and more inside one residual
    // (Frame::write always materialises the frame in its own scratch buffer, so a mis-counted frame of
    // 2^32 bits costs seconds per evaluation: few shrink steps for this family)
    let saved_shrink = ctx.shrink_iters.swap(24, std::sync::atomic::Ordering::Relaxed);
    ctx.search("stream-heavy", 16, per / 2, &|| {
        stream_case_strategy(CfgOpts { max_block: 2304, ..Default::default() }, InOpts { heavy: true, wide_bias: true, budget: 12_000, ..Default::default() }, false).prop_map(|mut c| {
            if c.inp.seed % 2 == 0 {
                c.cfg.max_parameter = (c.inp.seed / 2 % 3) as usize;
            }
            if c.inp.seed % 3 == 0 {
                c.cfg.fixed_max_order = 0;
                c.cfg.use_lpc = c.inp.seed % 2 == 1;
            }
            c
        })
    }, check_stream);
    ctx.shrink_iters.store(saved_shrink, std::sync::atomic::Ordering::Relaxed);
    ctx.search("residual", 16, per * 4, &|| {
        (prop_oneof![4 => 0usize..=8, 1 => 9usize..=14], prop_oneof![1usize..=8, 1usize..=70, Just(64usize)], 0usize..=4, proptest::collection::vec(0u8..=14, 1..=8), any::<u64>(), 0u8..=5)
            .prop_map(|(partition_order, part_len, warmup, params, seed, mode)| {
                // keep the block size inside 1..=32767
                let part_len = part_len.min((32767usize >> partition_order).max(1));
                ResCase { partition_order, part_len, warmup, params, seed, mode }
            })
    }, check_residual);
    ctx.search("parsed-header-codings", 16, per * 4, &|| {
        let number = prop_oneof![2 => (0u32..=36, -3i64..=3).prop_map(|(b, d)| ((1i128 << b) + d as i128).clamp(0, (1i128 << 36) - 1) as u64), 1 => any::<u64>().prop_map(|x| x & ((1u64 << 36) - 1))];
        (
            prop_oneof![3 => proptest::sample::select(vec![192usize, 576, 1152, 2304, 4608, 256, 512, 1024, 2048, 4096, 8192, 16384, 32768]), 2 => 1usize..=256, 2 => 1usize..=65536],
            0u8..=2,
            prop_oneof![2 => proptest::sample::select(vec![88200usize, 176400, 192000, 8000, 16000, 22050, 24000, 32000, 44100, 48000, 96000]), 2 => crate::gen::rate_strategy(), 1 => (0usize..=255).prop_map(|k| k * 1000), 1 => 0usize..=655350],
            0u8..=4,
            0u8..=10,
            proptest::sample::select(vec![0u8, 1, 2, 4, 5, 6]),
            number,
            any::<bool>(),
        )
            .prop_map(|(block, bs_form, rate, sr_form, ch_code, ss_code, number, variable)| NcCase { block, bs_form, rate, sr_form, ch_code, ss_code, number: if variable { number } else { number & ((1u64 << 31) - 1) }, variable })
    }, check_noncanonical);
    ctx.search("foreign-frames", 16, per * 2, &foreign_strategy, check_foreign);
    ctx.search("header", 16, per * 10, &|| {
        let number = prop_oneof![
            3 => (0u32..=36, -3i64..=3).prop_map(|(b, d)| ((1i128 << b) + d as i128).clamp(0, (1i128 << 36) - 1) as u64),
            2 => any::<u64>().prop_map(|x| x & ((1u64 << 36) - 1)),
            1 => any::<u64>().prop_map(|x| x & ((1u64 << 31) - 1)),
        ];
        (crate::gen::block_size_strategy(32767), crate::gen::rate_strategy(), proptest::sample::select(vec![8usize, 12, 16, 20, 24]), 1u8..=11, number, any::<bool>())
            .prop_map(|(block, rate, bps, channels, number, variable)| HdrCase { block, rate, bps, channels, number: if variable { number } else { number & ((1u64 << 31) - 1) }, variable, then: if number % 3 == 0 { Some((number % 2 == 0, number.rotate_left(17) >> (number % 37))) } else { None } })
    }, check_header);
}

pub fn replay(path: &str) -> Result<Outcome, String> {
    let (kind, case) = crate::core::replay_kind(path)?;
    match kind.as_str() {
        "foreign-frames" => Ok(check_foreign(&serde_json::from_value(case).map_err(|e| e.to_string())?)),
        "residual" => Ok(check_residual(&serde_json::from_value(case).map_err(|e| e.to_string())?)),
        "header" => Ok(check_header(&serde_json::from_value(case).map_err(|e| e.to_string())?)),
        "parsed-header-codings" => Ok(check_noncanonical(&serde_json::from_value(case).map_err(|e| e.to_string())?)),
        _ => Ok(check_stream(&serde_json::from_value(case).map_err(|e| e.to_string())?)),
    }
}
