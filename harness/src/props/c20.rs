//! C20 Emitted bytes do not depend on optional cargo features.
//!
//! `/verif/featprobe` (a tiny crate without any dependency besides flacenc) is built four times from
//! /repo's working tree, each time with another flacenc feature set, into separate target
//! directories under /verif/work. Each binary is a line server (one case in, one digest out). A
//! generated case (configuration without experimental options, PCM input, entry point) is sent to
//! all four servers; the digests must be identical to each other and to the digest the harness
//! itself (a fifth build: log+par+serde+decode with the scheduling hooks compiled in) computes.

use super::common::{Entry, StreamCase};
use crate::core::{Ctx, Outcome, VERIF_ROOT};
use crate::enc::{self, SrcKind};
use crate::gen::{self, CfgOpts, InOpts};
use crate::util::{catch, fnv};
use proptest::prelude::*;
use std::io::{BufRead, BufReader, Write};
use std::process::{Child, ChildStdin, ChildStdout, Command, Stdio};
use std::sync::Mutex;

pub const FEATURE_SETS: [(&str, &str); 4] = [("none", ""), ("default", "fs_default"), ("decode", "fs_default,fs_decode"), ("experimental", "fs_default,fs_decode,fs_experimental")];

fn bin_path(name: &str) -> String {
    format!("{VERIF_ROOT}/work/fp-{name}/release/featprobe")
}

/// Builds the four probes in parallel (incremental; rebuilds when /repo changed).
pub fn build_probes() -> Result<Vec<String>, String> {
    let mut handles = vec![];
    for (name, feats) in FEATURE_SETS {
        handles.push(std::thread::spawn(move || {
            let mut cmd = Command::new("cargo");
            cmd.current_dir(format!("{VERIF_ROOT}/featprobe")).env("CARGO_NET_OFFLINE", "true").args(["build", "--release", "--target-dir", &format!("{VERIF_ROOT}/work/fp-{name}")]);
            if !feats.is_empty() {
                cmd.args(["--features", feats]);
            }
            let out = cmd.output().map_err(|e| format!("cargo: {e}"))?;
            if !out.status.success() {
                let log = format!("{VERIF_ROOT}/work/fp-{name}.log");
                let _ = std::fs::write(&log, &out.stderr);
                return Err(format!("feature set `{name}` does not build (see {log}): {}", String::from_utf8_lossy(&out.stderr).lines().filter(|l| l.starts_with("error")).take(3).collect::<Vec<_>>().join(" | ")));
            }
            let f = Command::new(bin_path(name)).arg("--features").output().map_err(|e| format!("{e}"))?;
            Ok::<String, String>(String::from_utf8_lossy(&f.stdout).trim().to_string())
        }));
    }
    let mut feats = vec![];
    for h in handles {
        feats.push(h.join().map_err(|_| "build thread panicked".to_string())??);
    }
    Ok(feats)
}

struct Server {
    child: Child,
    stdin: ChildStdin,
    stdout: BufReader<ChildStdout>,
}

impl Server {
    fn start(name: &str) -> Result<Self, String> {
        let mut child = Command::new(bin_path(name)).stdin(Stdio::piped()).stdout(Stdio::piped()).stderr(Stdio::null()).env_remove("FLACENC_WORKERS").spawn().map_err(|e| format!("spawn {name}: {e}"))?;
        let stdin = child.stdin.take().ok_or("no stdin")?;
        let stdout = BufReader::new(child.stdout.take().ok_or("no stdout")?);
        Ok(Self { child, stdin, stdout })
    }
    fn ask(&mut self, line: &str) -> Result<String, String> {
        self.stdin.write_all(line.as_bytes()).and_then(|()| self.stdin.write_all(b"\n")).and_then(|()| self.stdin.flush()).map_err(|e| format!("write: {e}"))?;
        let mut ans = String::new();
        let n = self.stdout.read_line(&mut ans).map_err(|e| format!("read: {e}"))?;
        if n == 0 {
            return Err("probe process ended".into());
        }
        Ok(ans.trim().to_string())
    }
}

impl Drop for Server {
    fn drop(&mut self) {
        let _ = self.child.kill();
        let _ = self.child.wait();
    }
}

/// One set of four servers; a pool of sets lets the search threads work in parallel.
struct Pool {
    sets: Vec<Mutex<Vec<Server>>>,
}

impl Pool {
    fn new(n: usize) -> Result<Self, String> {
        let mut sets = vec![];
        for _ in 0..n {
            let mut v = vec![];
            for (name, _) in FEATURE_SETS {
                v.push(Server::start(name)?);
            }
            sets.push(Mutex::new(v));
        }
        Ok(Self { sets })
    }
}

pub fn case_line(case: &StreamCase, samples: &[i32]) -> String {
    let c = &case.cfg;
    let mut s = String::with_capacity(samples.len() * 8 + 200);
    let b = |x: bool| if x { 1 } else { 0 };
    s.push_str(&format!(
        "{} {} {} {} {} {} {} {} {} {} {} {} {} {} {} {} {} {} {} {} {}",
        c.block_size,
        b(c.multithread),
        c.workers.unwrap_or(0),
        b(c.ls),
        b(c.rs),
        b(c.ms),
        b(c.use_constant),
        b(c.use_fixed),
        b(c.use_lpc),
        c.fixed_max_order,
        c.order_sel.map_or(-1i64, |p| p as i64),
        c.lpc_order,
        c.quant_precision,
        c.window.map_or(-1i64, |w| w as i64),
        c.max_parameter,
        if case.entry == Entry::Frames { 2 } else { 0 },
        case.inp.channels,
        case.inp.bps,
        case.inp.rate,
        samples.len(),
        c.cfg_block.unwrap_or(0),
    ));
    for x in samples {
        s.push(' ');
        s.push_str(&x.to_string());
    }
    s
}

/// The harness' own answer in the probes' format.
fn own_answer(case: &StreamCase, samples: &[i32]) -> String {
    let r = catch(|| {
        let cfg = enc::verified(&case.cfg)?;
        let (ch, bps, rate, block) = (case.inp.channels, case.inp.bps, case.inp.rate, case.cfg.block_size);
        let stream = match case.entry {
            Entry::Frames => enc::encode_by_frames(&cfg, samples, ch, bps, rate, block, SrcKind::Mem)?.0,
            _ => enc::encode_stream(&cfg, samples, ch, bps, rate, block, SrcKind::Mem)?,
        };
        use flacenc::component::BitRepr;
        let bits = stream.count_bits();
        let limit = enc::sane_bits(samples.len(), bps);
        if bits > limit {
            return Ok(format!("oversized {bits}"));
        }
        let bytes = enc::stream_bytes(&stream, limit)?;
        Ok::<String, String>(format!("ok {:016x} {} {}", fnv(&bytes), bytes.len(), stream.frame_count()))
    });
    match r {
        Ok(Ok(s)) => s,
        Ok(Err(e)) => format!("err {e}"),
        Err(p) => format!("panic {}", p.msg.replace('\n', " ")),
    }
}

fn kind_of(ans: &str) -> &str {
    ans.split(' ').next().unwrap_or("")
}

fn evaluate(case: &StreamCase, set: &mut Vec<Server>) -> Outcome {
    let mut out = Outcome::new(case.fp());
    let samples = case.inp.samples();
    let line = case_line(case, &samples);
    let mut answers: Vec<(String, String)> = vec![];
    for (i, (name, _)) in FEATURE_SETS.iter().enumerate() {
        match set[i].ask(&line) {
            Ok(a) => answers.push((name.to_string(), a)),
            Err(e) => {
                // restart the server so that the search can go on; the case itself is inconclusive
                if let Ok(s) = Server::start(name) {
                    set[i] = s;
                }
                out.inconclusive = Some(format!("probe `{name}`: {e}"));
                return out;
            }
        }
    }
    answers.push(("harness(log,par,serde,decode,hooks)".into(), own_answer(case, &samples)));
    let first = answers[0].1.clone();
    out.class(format!("answer:{}", kind_of(&first)));
    out.class(format!("entry:{:?}", case.entry));
    if case.cfg.multithread {
        out.class("multithread");
    }
    if let Some((name, a)) = answers.iter().find(|(_, a)| *a != first) {
        // errors carry Debug text of the same error values, so they must agree as well, but only the kind is required
        let both_err = kind_of(a) == "err" && kind_of(&first) == "err";
        if !both_err {
            out.viol(
                format!("bytes-differ:{}-vs-none:{}", name.split('(').next().unwrap_or(name), match (kind_of(&first), kind_of(a)) { ("ok", "ok") => "different-bytes".to_string(), (x, y) => format!("{x}-vs-{y}") }),
                format!("feature set `none` answers `{first}`, `{name}` answers `{a}`; all answers: {answers:?}; {} block {}", case.inp.describe(), case.cfg.block_size),
            );
            return out;
        }
    }
    // non-trivial: the stream contains more than a header and the configuration allows prediction
    let frames: usize = first.split(' ').nth(3).and_then(|x| x.parse().ok()).unwrap_or(0);
    out.nontrivial = kind_of(&first) == "ok" && frames >= 1 && (case.cfg.use_fixed || case.cfg.use_lpc);
    out
}

pub fn case_strategy(budget: usize) -> BoxedStrategy<StreamCase> {
    (gen::cfg_input_strategy(CfgOpts { allow_multithread: true, experimental: false, ..Default::default() }, InOpts { budget, ..Default::default() }), any::<bool>())
        .prop_map(|((mut cfg, inp), frames)| {
            let entry = if frames && !cfg.multithread { Entry::Frames } else if cfg.multithread { Entry::Multi } else { Entry::Single };
            if cfg.multithread && cfg.workers.is_none() {
                cfg.workers = Some(1 + (inp.seed % 3) as usize);
            }
            StreamCase { cfg, inp, entry, src: SrcKind::Mem }
        })
        .boxed()
}

pub fn run(ctx: &Ctx) {
    ctx.rule(
        "cases = streams of 127..4100 small frames (all three entry points) and generated (configuration without experimental options, PCM input, entry point in {stream single-thread, stream with multithread = true, frame-level}); each case is encoded by four probe binaries built from the working tree with the flacenc feature sets {} (no default features), {log,par,serde}, {log,par,serde,decode}, {log,par,serde,decode,experimental} and by the harness itself; oracle: identical digest (FNV-64 of the emitted bytes, length, frame count) from all five; \
         non-trivial = the stream has at least one frame and the configuration allows a predictive subframe; distinct by (configuration, input)",
    );
    ctx.assume("a feature set that does not compile is reported as inconclusive (exit 2), not as a violation");
    ctx.assume("simd-nightly and mimalloc are not part of the property's feature list and are not built");
    let feats = match build_probes() {
        Ok(f) => f,
        Err(e) => {
            ctx.inconclusive.lock().unwrap().push(format!("probe build: {e}"));
            return;
        }
    };
    ctx.set_extra("feature_sets_built", serde_json::json!(feats));
    let threads = 8;
    let pool = match Pool::new(threads) {
        Ok(p) => p,
        Err(e) => {
            ctx.inconclusive.lock().unwrap().push(format!("probe start: {e}"));
            return;
        }
    };
    let next = std::sync::atomic::AtomicUsize::new(0);
    // streams of many small frames (multi-byte frame numbers on the largest frames): the size estimates
    // that feed STREAMINFO differ between precomputed (par) and not precomputed (no par) frames
    {
        let mf: Vec<StreamCase> = super::common::many_frames_cases(ctx.tier == crate::core::Tier::Thorough).into_iter().filter(|c| c.inp.len <= 300_000).collect();
        let idx = std::sync::atomic::AtomicUsize::new(0);
        ctx.enumerate_all("many-frames", threads, mf.len() as u64, |i| mf[i as usize].clone(), |case: &StreamCase| {
            let k = idx.fetch_add(1, std::sync::atomic::Ordering::SeqCst) % pool.sets.len();
            let mut set = pool.sets[k].lock().unwrap();
            evaluate(case, &mut set)
        });
    }
    let per = ctx.tier.scale(1500, 10);
    let budget = if ctx.tier == crate::core::Tier::Thorough { 40_000 } else { 12_000 };
    ctx.search("feature-sets", threads, per, &|| case_strategy(budget), |case: &StreamCase| {
        // each search thread sticks to one set of servers
        thread_local! { static MY_SET: std::cell::Cell<usize> = const { std::cell::Cell::new(usize::MAX) }; }
        let idx = MY_SET.with(|c| {
            if c.get() == usize::MAX {
                c.set(next.fetch_add(1, std::sync::atomic::Ordering::SeqCst) % pool.sets.len());
            }
            c.get()
        });
        let mut set = pool.sets[idx].lock().unwrap();
        evaluate(case, &mut set)
    });
}

pub fn replay(path: &str) -> Result<Outcome, String> {
    let (_k, case): (String, StreamCase) = crate::core::load_replay(path)?;
    build_probes()?;
    let mut set = vec![];
    for (name, _) in FEATURE_SETS {
        set.push(Server::start(name)?);
    }
    Ok(evaluate(&case, &mut set))
}
