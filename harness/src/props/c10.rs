//! C10 Encoding is independent of call history and of the calling thread.
//!
//! Model-based histories: a generated sequence of operations is executed on ONE long-lived thread;
//! every operation is also executed alone on a freshly spawned thread (whose thread-local scratch
//! storage is pristine). Results must agree call by call.

use super::common::*;
use crate::core::{Ctx, Outcome};
use crate::enc::{self, SrcKind};
use crate::gen::{self, CfgOpts, CfgSpec, InOpts, InputSpec};
use crate::util::{catch, fnv};
use flacenc::bitsink::{ByteSink, MemSink};
use flacenc::component::{parser, BitRepr, Decode};
use proptest::prelude::*;
use serde::{Deserialize, Serialize};

#[derive(Clone, Copy, Debug, PartialEq, Eq, Serialize, Deserialize)]
pub enum OpKind {
    /// stream-level encode (single-thread mode) + `Stream::write` into a `ByteSink`
    Stream,
    /// frame-level loop; every frame written alone into a `MemSink<u64>`, then the stream into a `ByteSink`
    Frames,
    /// stream-level encode, `precompute_bitstream` on every frame, write into `MemSink<u64>`
    Precomputed,
    /// stream-level encode + write + `parser::stream` + `Decode` + re-serialise the parsed stream
    ParseBack,
    /// stream-level encode in multi-thread mode (the encoding happens on other threads)
    Multi,
    /// stream-level encode (frames not precomputed), then `Stream::write` into a user sink that fails at
    /// its k-th operation (k derived from the input seed); observable = the bits accepted before the
    /// failure and the error
    FailingWrite,
    /// frame-level encode, every frame re-headed through `Frame::into_parts` / `FrameHeader::new` / `Frame::new` with
    /// variable-blocking (start-sample) headers, assembled with `Stream::add_frame`, written into a `ByteSink`;
    /// block sizes change from frame to frame when the input seed is odd
    AssembledVariable,
    /// the same with fixed-blocking headers (identical specifier bits, the other blocking strategy)
    AssembledFixed,
    /// frame-level encode; then the header of the first frame (also with a start-sample number the writer must refuse)
    /// and each of its subframes are written alone into a user sink that fails at its k-th operation (after the stream
    /// has been written into a `ByteSink`, so that the next operation meets what the failed writes left). Observable: the bits every failing sink accepted, the errors, the stream bytes
    FailingComponentWrites,
}

#[derive(Clone, Debug, PartialEq, Serialize, Deserialize)]
pub struct Op {
    pub kind: OpKind,
    pub cfg: CfgSpec,
    pub inp: InputSpec,
    pub src: SrcKind,
}

#[derive(Clone, Debug, PartialEq, Serialize, Deserialize)]
pub struct History {
    pub ops: Vec<Op>,
}

/// What one operation yields: everything observable, as bytes.
#[derive(Clone, Debug, PartialEq, Eq)]
pub struct OpResult {
    pub bytes: Vec<u8>,
    pub note: String,
}

type E<'a> = nom::error::Error<&'a [u8]>;

pub fn exec(op: &Op) -> OpResult {
    let r = catch(|| exec_inner(op));
    match r {
        Ok(Ok(bytes)) => OpResult { bytes, note: "ok".into() },
        Ok(Err(e)) => OpResult { bytes: vec![], note: format!("err:{e}") },
        Err(p) => OpResult { bytes: vec![], note: format!("panic:{}", p.sig()) },
    }
}

fn exec_inner(op: &Op) -> Result<Vec<u8>, String> {
    let mut cfg = op.cfg.clone();
    cfg.multithread = op.kind == OpKind::Multi;
    if cfg.multithread && cfg.workers.is_none() {
        cfg.workers = Some(2);
    }
    let v = enc::verified(&cfg)?;
    let samples = op.inp.samples();
    let (ch, bps, rate, block) = (op.inp.channels, op.inp.bps, op.inp.rate, cfg.block_size);
    let limit = enc::sane_bits(samples.len() + 4096, bps);
    let mut out: Vec<u8> = vec![];
    match op.kind {
        OpKind::Stream | OpKind::Multi => {
            let s = enc::encode_stream(&v, &samples, ch, bps, rate, block, op.src)?;
            out = enc::stream_bytes(&s, limit)?;
        }
        OpKind::Frames => {
            let (s, frames) = enc::encode_by_frames(&v, &samples, ch, bps, rate, block, op.src)?;
            for f in &frames {
                if f.count_bits() > limit {
                    return Err("oversized".into());
                }
                let mut sink = MemSink::<u64>::new();
                f.write(&mut sink).map_err(|e| format!("{e:?}"))?;
                let mut b = vec![0u8; (sink.len() + 7) / 8];
                sink.write_to_byte_slice(&mut b);
                out.extend_from_slice(&b);
            }
            out.extend_from_slice(&enc::stream_bytes(&s, limit)?);
        }
        OpKind::Precomputed => {
            let s = enc::encode_stream(&v, &samples, ch, bps, rate, block, op.src)?;
            if s.count_bits() > limit {
                return Err("oversized".into());
            }
            for n in 0..s.frame_count() {
                let mut f = s.frame(n).unwrap().clone();
                f.precompute_bitstream();
                let mut sink = MemSink::<u64>::new();
                f.write(&mut sink).map_err(|e| format!("{e:?}"))?;
                let mut b = vec![0u8; (sink.len() + 7) / 8];
                sink.write_to_byte_slice(&mut b);
                out.extend_from_slice(&b);
            }
        }
        OpKind::FailingWrite => {
            let s = enc::encode_stream(&v, &samples, ch, bps, rate, block, op.src)?;
            if s.count_bits() > limit {
                return Err("oversized".into());
            }
            let mut probe = crate::oracle::bits::MinimalSink::new();
            s.write(&mut probe).map_err(|e| format!("{e:?}"))?;
            let total = probe.ops.max(1);
            let k = (op.inp.seed % total as u64) as usize;
            let mut sink = crate::oracle::bits::MinimalSink::failing_at(k);
            let r = s.write(&mut sink);
            out = sink.model.to_bytes();
            out.extend_from_slice(&(sink.model.len() as u64).to_le_bytes());
            out.push(match r {
                Ok(()) => 0,
                Err(flacenc::error::OutputError::Sink(_)) => 1,
                Err(_) => 2,
            });
        }
        OpKind::FailingComponentWrites => {
            use flacenc::component::FrameOffset;
            let (s, frames) = enc::encode_by_frames(&v, &samples, ch, bps, rate, block, op.src)?;
            if s.count_bits() > limit {
                return Err("oversized".into());
            }
            // the stream first, the failing writes last: whatever they leave behind meets the next operation of the history
            out.extend_from_slice(&enc::stream_bytes(&s, limit)?);
            if let Some(f) = frames.first() {
                let mut k = op.inp.seed as usize;
                let mut fail_write = |c: &dyn Fn(&mut crate::oracle::bits::MinimalSink) -> u8, out: &mut Vec<u8>| {
                    let mut probe = crate::oracle::bits::MinimalSink::new();
                    let _ = c(&mut probe);
                    let total = probe.ops.max(1);
                    k = k.wrapping_mul(31).wrapping_add(7);
                    let mut sink = crate::oracle::bits::MinimalSink::failing_at(k % total);
                    let r = c(&mut sink);
                    out.extend_from_slice(&sink.model.to_bytes());
                    out.extend_from_slice(&(sink.model.len() as u32).to_le_bytes());
                    out.push(r);
                };
                let code = |r: Result<(), flacenc::error::OutputError<crate::oracle::bits::MinimalSink>>| match r {
                    Ok(()) => 0u8,
                    Err(flacenc::error::OutputError::Sink(_)) => 1,
                    Err(_) => 2,
                };
                // order: the frame and the subframes first, the header last (a successful write may tidy up what a
                // failed one left; the last thing this operation does is a header write that fails)
                fail_write(&|snk| code(f.write(snk)), &mut out);
                for c in 0..f.subframe_count() {
                    let sf = f.subframe(c).unwrap();
                    fail_write(&|snk| code(sf.write(snk)), &mut out);
                }
                fail_write(&|snk| code(f.header().write(snk)), &mut out);
                if op.inp.seed % 2 == 0 {
                    let mut h2 = f.header().clone();
                    h2.set_frame_offset(FrameOffset::StartSample(1u64 << 36));
                    fail_write(&|snk| code(h2.write(snk)), &mut out);
                }
            }
        }
        OpKind::AssembledVariable | OpKind::AssembledFixed => {
            let variable = op.kind == OpKind::AssembledVariable;
            let base = StreamCase { cfg: cfg.clone(), inp: op.inp.clone(), entry: Entry::Frames, src: op.src };
            let asm = super::assembled::Asm { variable, ragged: variable && op.inp.seed & 1 == 1, seed: op.inp.seed, first: 0 };
            let (s, _) = super::assembled::build(&base, &asm, &samples).map_err(|e| match e {
                RunErr::Panic(p) => format!("panic-in-build:{}", p.sig()),
                other => format!("{other:?}"),
            })?;
            out = enc::stream_bytes(&s, limit)?;
        }
        OpKind::ParseBack => {
            let s = enc::encode_stream(&v, &samples, ch, bps, rate, block, op.src)?;
            let bytes = enc::stream_bytes(&s, limit)?;
            let (_rest, parsed) = parser::stream::<E>(&bytes).map_err(|e| format!("parse: {}", format!("{e:?}").chars().take(80).collect::<String>()))?;
            let mut dec: Vec<i32> = vec![];
            for n in 0..parsed.frame_count() {
                dec.extend(parsed.frame(n).unwrap().decode());
            }
            let mut sink = ByteSink::new();
            parsed.write(&mut sink).map_err(|e| format!("{e:?}"))?;
            out = sink.into_inner();
            out.extend_from_slice(&fnv(&dec.iter().flat_map(|x| x.to_le_bytes()).collect::<Vec<u8>>()).to_le_bytes());
            out.extend_from_slice(&bytes);
        }
    }
    Ok(out)
}

/// Executes `f` on a freshly spawned thread (pristine thread-local storage).
fn fresh<T: Send>(f: impl FnOnce() -> T + Send) -> T {
    std::thread::scope(|s| s.spawn(f).join().expect("fresh thread must not unwind (exec catches panics)"))
}

fn shape(op: &Op) -> (usize, usize, usize, Option<u32>) {
    (op.cfg.block_size, op.inp.channels, op.inp.bps, op.cfg.window)
}

pub fn check(h: &History) -> Outcome {
    let mut out = Outcome::new(fnv(serde_json::to_string(h).unwrap_or_default().as_bytes()));
    out.weight = h.ops.len().max(1) as u64;
    // the history, on one long-lived thread
    let seq: Vec<OpResult> = fresh(|| h.ops.iter().map(exec).collect());
    // each op alone on a fresh thread
    for (i, op) in h.ops.iter().enumerate() {
        let alone = fresh(|| exec(op));
        out.class(format!("op:{:?}", op.kind));
        out.class(format!("op:{:?}:{}", op.kind, alone.note.split(':').next().unwrap_or("")));
        if alone.note.starts_with("panic:") {
            // a panic of a valid call made alone is C01's business; it is reported here too because the
            // history oracle cannot be evaluated
            out.viol(format!("alone-{}", normalise(&alone.note)), format!("op {i} ({:?}, {}) panics even on a fresh thread: {}", op.kind, op.inp.describe(), alone.note));
            return out;
        }
        if alone.note.starts_with("err:oversized") {
            out.class("skipped-op:oversized(C09)");
            continue;
        }
        if seq[i] != alone {
            let prev: Vec<String> = h.ops[..i].iter().map(|o| format!("{:?}/b{}/c{}/w{}/win{:?}", o.kind, o.cfg.block_size, o.inp.channels, o.inp.bps, o.cfg.window_alpha())).collect();
            let at = seq[i].bytes.iter().zip(alone.bytes.iter()).position(|(a, b)| a != b);
            out.viol(
                format!("history-dependence:kind={:?}", op.kind),
                format!(
                    "op {i} ({:?}, block {}, {}, window {:?}) after [{}] gives {} bytes / {} but {} bytes / {} on a fresh thread; first difference at byte {:?}",
                    op.kind,
                    op.cfg.block_size,
                    op.inp.describe(),
                    op.cfg.window_alpha(),
                    prev.join(", "),
                    seq[i].bytes.len(),
                    seq[i].note,
                    alone.bytes.len(),
                    alone.note,
                    at
                ),
            );
            return out;
        }
    }
    // classification
    let mut shapes: Vec<(usize, usize, usize, Option<u32>)> = h.ops.iter().map(shape).collect();
    shapes.dedup();
    let encodes = h.ops.len();
    if encodes >= 2 && shapes.len() >= 2 {
        out.nontrivial = true;
    }
    for w in h.ops.windows(2) {
        let (a, b) = (&w[0], &w[1]);
        if a.cfg.block_size > b.cfg.block_size {
            out.class("step:block-shrinks");
        }
        if a.cfg.block_size < b.cfg.block_size {
            out.class("step:block-grows");
        }
        if a.inp.channels != b.inp.channels {
            out.class("step:channels-change");
        }
        if a.inp.bps != b.inp.bps {
            out.class("step:width-changes");
        }
    }
    // near-collisions of window parameters: same block size, alphas differ by less than 2^-16
    for (i, a) in h.ops.iter().enumerate() {
        for b in h.ops.iter().skip(i + 1) {
            if let (Some(x), Some(y)) = (a.cfg.window_alpha(), b.cfg.window_alpha()) {
                if a.cfg.block_size == b.cfg.block_size && x != y && (x - y).abs() < 1.0 / 65536.0 && a.cfg.use_lpc && b.cfg.use_lpc {
                    out.class("window:near-collision(<2^-16, same block size)");
                }
            }
        }
    }
    out
}

/// Alphas with near-collisions (differences far below 2^-16 as well as around the old cache quantum).
pub fn alpha_pool() -> Vec<u32> {
    let q = 1.0f32 / 65535.0;
    vec![
        0.0f32.to_bits(),
        1e-6f32.to_bits(),
        1, // smallest subnormal
        (q * 0.5).to_bits(),
        q.to_bits(),
        (q * 1.5).to_bits(),
        0.4f32.to_bits(),
        0.4f32.to_bits() + 1,
        0.4f32.to_bits() + 40,
        (0.4f32 + q * 0.6).to_bits(),
        0.5f32.to_bits(),
        0.5f32.to_bits() - 1,
        1.0f32.to_bits(),
        1.0f32.to_bits() - 1,
        (1.0f32 - q * 0.7).to_bits(),
        0.25f32.to_bits(),
        (0.25f32 + 1e-6).to_bits(),
    ]
}

fn op_strategy(blocks: Vec<usize>, budget: usize) -> BoxedStrategy<Op> {
    let kind = prop_oneof![5 => Just(OpKind::Stream), 3 => Just(OpKind::Frames), 2 => Just(OpKind::Precomputed), 2 => Just(OpKind::ParseBack), 1 => Just(OpKind::Multi), 3 => Just(OpKind::FailingWrite), 2 => Just(OpKind::FailingComponentWrites), 2 => Just(OpKind::AssembledVariable), 1 => Just(OpKind::AssembledFixed)];
    let window = prop_oneof![1 => Just(None), 5 => proptest::sample::select(alpha_pool()).prop_map(Some), 1 => gen::alpha_bits_strategy().prop_map(Some)];
    (proptest::sample::select(blocks), gen::cfg_strategy(CfgOpts { max_block: 4608, ..Default::default() }), kind, window, src_strategy(), any::<bool>())
        .prop_flat_map(move |(block, mut cfg, kind, window, src, force_lpc)| {
            cfg.block_size = block;
            cfg.window = window;
            if force_lpc {
                cfg.use_lpc = true;
            }
            (Just(cfg), Just(kind), Just(src), gen::input_strategy(block, InOpts { budget, max_channels: 8, ..Default::default() }))
        })
        .prop_map(|(cfg, kind, src, inp)| Op { kind, cfg, inp, src })
        .boxed()
}

pub fn history_strategy(max_ops: usize, budget: usize) -> BoxedStrategy<History> {
    // a small pool of block sizes per history makes "same size, other parameters" steps frequent,
    // while the pool itself mixes small and large sizes (shrinking and growing buffers)
    proptest::collection::vec(gen::block_size_strategy(2304), 1..=3)
        .prop_flat_map(move |blocks| proptest::collection::vec(op_strategy(blocks, budget), 2..=max_ops))
        .prop_map(|ops| History { ops })
        .boxed()
}

/// Histories made of two ops that differ ONLY in the window parameter (the sharpest probe of the cache).
pub fn window_pair_strategy() -> BoxedStrategy<History> {
    (op_strategy(vec![64, 256, 1000], 3000), proptest::sample::select(alpha_pool()), proptest::sample::select(alpha_pool()), any::<bool>())
        .prop_map(|(mut a, w1, w2, rect_first)| {
            a.cfg.use_lpc = true;
            a.cfg.use_fixed = false;
            if a.inp.len < a.cfg.block_size {
                a.inp.len = a.cfg.block_size + a.inp.len;
            }
            // LPC-friendly content so that the window matters
            for c in a.inp.chans.iter_mut() {
                for s in c.segs.iter_mut() {
                    if ![3u8, 4, 5, 14, 6].contains(&(s.class % 17)) {
                        s.class = 14;
                        s.amp = 3;
                    }
                }
            }
            a.kind = OpKind::Stream;
            let mut b = a.clone();
            a.cfg.window = if rect_first { None } else { Some(w1) };
            b.cfg.window = Some(w2);
            History { ops: vec![a, b] }
        })
        .boxed()
}

/// Two or three ops on the same (config, input) that differ only in the blocking strategy of the headers they write.
pub fn blocking_pair_strategy() -> BoxedStrategy<History> {
    (op_strategy(vec![32, 64, 192, 256, 1000, 1152], 3000), proptest::collection::vec(proptest::sample::select(vec![OpKind::Stream, OpKind::Frames, OpKind::AssembledVariable, OpKind::AssembledFixed, OpKind::Precomputed]), 2..=3))
        .prop_map(|(mut a, kinds)| {
            a.inp.seed &= !1; // equal block sizes: identical specifier bits in both strategies
            History { ops: kinds.into_iter().map(|k| { let mut o = a.clone(); o.kind = k; o }).collect() }
        })
        .boxed()
}

/// Two ops whose buffers have the same total size (channels x block size) but a different shape.
pub fn same_product_strategy() -> BoxedStrategy<History> {
    (op_strategy(vec![64], 4000), op_strategy(vec![64], 4000), 1usize..=8, 1usize..=8, 4usize..=500, any::<bool>())
        .prop_map(|(mut a, mut b, c1, c2, k, frames)| {
            let c2 = if c1 == c2 { c1 % 8 + 1 } else { c2 };
            let k = k.max((32 + c1.min(c2) - 1) / c1.min(c2)).min(4608 / c1.max(c2));
            let set = |o: &mut Op, ch: usize, block: usize, other: &InputSpec| {
                o.cfg.block_size = block;
                o.inp.channels = ch;
                while o.inp.chans.len() < ch {
                    let c = o.inp.chans[o.inp.chans.len() % o.inp.chans.len().max(1)].clone();
                    o.inp.chans.push(c);
                }
                o.inp.chans.truncate(ch);
                o.inp.bps = other.bps;
                o.inp.len = (block * 2 + block / 3).min(9000 / ch + block);
                o.kind = if frames { OpKind::Frames } else { OpKind::Stream };
            };
            let ai = a.inp.clone();
            set(&mut a, c1, k * c2, &ai);
            set(&mut b, c2, k * c1, &ai);
            History { ops: vec![a, b] }
        })
        .boxed()
}

pub fn run(ctx: &Ctx) {
    ctx.rule(
        "histories = vec(op, 2..=7) executed on one long-lived thread, op in {stream encode+write, frame-level encode + per-frame write to MemSink<u64>, precompute_bitstream + write to MemSink<u64>, encode+write+parse+decode+re-serialise, multi-thread encode, write into a failing user sink, writes of a frame header (also one the writer must refuse) / of each subframe / of a frame alone into failing user sinks followed by a stream write, hand-assembled streams with variable-blocking or fixed-blocking headers built through Frame::into_parts / FrameHeader::new / Frame::new} with generated valid (config, input); \
         block sizes come from a per-history pool of 1..=3 sizes (32..=2304) so that steps change channels (1..=8), widths (8..=24), LPC order, Rice limits and window parameters at a fixed buffer size as well as shrinking/growing the buffers; window parameters from a pool with near-collisions (0, 1e-6, subnormal, 0.4, 0.4+1ulp, 0.4+0.6/65535, 1-ulp, 1, ...); \
         oracle: the observable bytes of every op equal those of the same op executed alone on a freshly spawned thread; second family: pairs of ops that differ only in the window parameter; third: 2-3 ops on the same (config, input) that differ only in how the stream is produced (stream-level, frame-level, precomputed, variable-blocking or fixed-blocking re-headed frames: same specifier bits, other blocking strategy); fourth: pairs whose buffers have the same total size channels x block size but another shape; \
         evaluations = ops executed inside histories; non-trivial = history with >= 2 ops whose (block size, channels, width, window) differ; distinct by hash of the history",
    );
    ctx.assume("a fresh OS thread has pristine thread-local scratch storage (the library keeps its reusable buffers in thread_local! cells only)");
    ctx.shrink_iters.store(300, std::sync::atomic::Ordering::Relaxed);
    let per = ctx.tier.scale(150, 20);
    ctx.search("history", 16, per, &|| history_strategy(7, 6000), check);
    ctx.search("window-pair", 16, per, &|| window_pair_strategy(), check);
    ctx.search("blocking-pair", 16, per, &|| blocking_pair_strategy(), check);
    ctx.search("same-product-pair", 16, per, &|| same_product_strategy(), check);
    if ctx.tier == crate::core::Tier::Thorough {
        ctx.search("history-long", 16, 300, &|| history_strategy(12, 20000), check);
    }
}

pub fn replay(path: &str) -> Result<Outcome, String> {
    let (_k, case): (String, History) = crate::core::load_replay(path)?;
    Ok(check(&case))
}
