//! Hand-assembled streams: frames made by the encoder's frame-level entry point, re-headed through the public
//! constructors (`Frame::into_parts`, `FrameHeader::new`, `Frame::new`) and put together with `Stream::new` +
//! `add_frame`. This is the only way to obtain *variable-blocking* streams (start-sample numbers, block sizes that
//! change from frame to frame) from this library; the stream-level entry points never produce them.
//! Used by C08, C10, C15 and C18.

use super::common::{RunErr, StreamCase};
use crate::enc;
use crate::util::{catch, Sm64};
use flacenc::component::{Frame, FrameHeader, FrameOffset, Stream};
use flacenc::source::{Context, Fill, FrameBuf};
use serde::{Deserialize, Serialize};

#[derive(Clone, Debug, PartialEq, Serialize, Deserialize)]
pub struct Asm {
    /// variable-blocking headers (start-sample numbers) instead of frame numbers
    pub variable: bool,
    /// block sizes change from frame to frame (drawn from `seed`); otherwise every frame has the block size of the
    /// configuration and only the last one is shorter
    pub ragged: bool,
    pub seed: u64,
    /// start-sample / frame number of the first frame (0 for a stream that verifies)
    pub first: u64,
}

/// Block sizes of the consecutive frames for an input of `len` inter-channel samples.
pub fn sizes(len: usize, block: usize, asm: &Asm) -> Vec<usize> {
    let mut v = vec![];
    let mut left = len;
    let mut r = Sm64::new(asm.seed ^ 0x5151);
    while left > 0 {
        let n = if !asm.ragged {
            block
        } else {
            match r.below(8) {
                0 => block,
                1 => 1 + r.below(15) as usize,
                2 => 16 + r.below(48) as usize,
                3 => (block / 2).max(1),
                4 => [192usize, 576, 1152, 256, 512, 1024, 4608, 4096][r.below(8) as usize],
                _ => 1 + r.below(block as u64) as usize,
            }
        }
        .min(block)
        .min(left)
        .max(1);
        v.push(n);
        left -= n;
    }
    v
}

/// Encodes `samples` block by block (sizes from `sizes`) through the frame-level entry point and re-heads every frame.
/// Returns the assembled stream and the block sizes.
pub fn build(base: &StreamCase, asm: &Asm, samples: &[i32]) -> Result<(Stream, Vec<usize>), RunErr> {
    let vcfg = enc::verified(&base.cfg).map_err(RunErr::CfgRejected)?;
    let (ch, bps, rate, block) = (base.inp.channels, base.inp.bps, base.inp.rate, base.cfg.block_size);
    let szs = sizes(samples.len() / ch.max(1), block, asm);
    let r = catch(|| -> Result<Stream, String> {
        let mut stream = Stream::new(rate, ch, bps).map_err(|e| format!("{e:?}"))?;
        // as in the documented frame-level use: the bounds start at the nominal block size (add_frame lowers the minimum)
        stream.stream_info_mut().set_block_sizes(block, block).map_err(|e| format!("{e:?}"))?;
        let mut fb = FrameBuf::with_size(ch, block).map_err(|e| format!("{e:?}"))?;
        let mut ctx = Context::new(bps, ch);
        let mut pos = 0usize;
        let mut start = asm.first;
        for (i, n) in szs.iter().enumerate() {
            let chunk = &samples[pos * ch..(pos + n) * ch];
            (&mut fb, &mut ctx).fill_interleaved(chunk).map_err(|e| format!("{e:?}"))?;
            let f = flacenc::encode_fixed_size_frame(&vcfg, &fb, i, stream.stream_info()).map_err(|e| format!("{e:?}"))?;
            let (h, subs) = f.into_parts();
            let off = if asm.variable { FrameOffset::StartSample(start) } else { FrameOffset::Frame((asm.first as usize + i) as u32) };
            let h2 = FrameHeader::new(h.block_size(), h.channel_assignment().clone(), bps, rate, off).map_err(|e| format!("FrameHeader::new: {e:?}"))?;
            let f2 = Frame::new(h2, subs.into_iter()).map_err(|e| format!("Frame::new: {e:?}"))?;
            stream.add_frame(f2);
            pos += n;
            start += *n as u64;
        }
        stream.stream_info_mut().set_md5_digest(&ctx.md5_digest());
        stream.stream_info_mut().set_total_samples(ctx.total_samples());
        Ok(stream)
    });
    match r {
        Err(p) => Err(RunErr::Panic(p)),
        Ok(Err(e)) => Err(RunErr::EncodeErr(e)),
        Ok(Ok(s)) => Ok((s, szs)),
    }
}
