//! C02 Every emitted stream is well-formed FLAC (RFC 9639).

use super::common::*;
use crate::core::{Ctx, Outcome, Tier};
use crate::enc;
use crate::gen::{CfgOpts, InOpts};
use crate::oracle::refdec::{self, FrameCtx};
use flacenc::component::StreamInfo;
use flacenc::config;
use flacenc::error::{Verified, Verify};
use flacenc::source::{Fill, FrameBuf};
use serde::{Deserialize, Serialize};
use std::sync::OnceLock;

// ---------------------------------------------------------------- (a) generated streams

pub fn check_stream(case: &StreamCase) -> Outcome {
    let mut out = Outcome::new(case.fp());
    out.class(format!("entry:{:?}", case.entry));
    let run = match run_stream(case) {
        Ok(r) => r,
        Err(e) => {
            out.class(format!("skipped:{}", match e {
                RunErr::Panic(_) => "encode-panic(C01)",
                RunErr::Oversized(_) => "oversized(C09)",
                _ => "encode-error(C01)",
            }));
            return out;
        }
    };
    let tr = &run.trace;
    if let Some(f) = &tr.fatal {
        out.viol(format!("malformed:{}", normalise(f)), format!("strict reader stops: {f}; input {}", case.inp.describe()));
        return out;
    }
    for v in &tr.violations {
        // STREAMINFO block-size bounds are property C04's subject
        if v.starts_with("STREAMINFO min block size") || v.starts_with("STREAMINFO max block size") {
            out.class("c04-rule-violated");
            continue;
        }
        out.viol(format!("rule:{}", normalise(v)), format!("{v}; input {} block {}", case.inp.describe(), case.cfg.block_size));
        return out;
    }
    // well-formedness must not depend on the sink type that receives the stream
    if let Err((sig, detail)) = other_sinks_agree(&run.stream, &run.bytes, case.inp.seed) {
        out.viol(sig, detail);
        return out;
    }
    if !tr.info.is_last || !tr.other_blocks.is_empty() {
        out.viol("rule:last-block-flag", "STREAMINFO is the only block but is not flagged last".to_string());
        return out;
    }
    // the same stream with extra metadata blocks appended one by one, and / or serialised right after a
    // write into a user sink that failed half-way: still well-formed, same audio
    let seed = case.inp.seed;
    let nmeta = ((seed >> 3) % 6) as usize % 5;
    let poison = seed % 3 == 0;
    if nmeta > 0 || poison {
        let Ok((mut s2, _)) = encode_case(case, &run.samples) else {
            out.class("skipped:variant-encode-failed");
            return out;
        };
        for i in 0..nmeta {
            let tag = 1 + ((seed >> 8) as usize + 31 * i) % 126;
            let len = ((seed >> 16) as usize + 7 * i) % 40;
            if let Ok(m) = flacenc::component::MetadataBlockData::new_unknown(tag as u8, &vec![0xA5u8; len]) {
                s2.add_metadata_block(m);
            }
        }
        let limit = enc::sane_bits(run.samples.len() + 4096, case.inp.bps);
        let r = crate::util::catch(|| {
            if poison {
                use flacenc::component::BitRepr;
                let mut probe = crate::oracle::bits::MinimalSink::new();
                if s2.write(&mut probe).is_ok() && probe.ops >= 2 {
                    let mut failing = crate::oracle::bits::MinimalSink::failing_at((seed >> 5) as usize % probe.ops);
                    let _ = s2.write(&mut failing);
                }
            }
            enc::stream_bytes(&s2, limit)
        });
        out.class(format!("extra-metadata-blocks:{nmeta}"));
        if poison {
            out.class("written-after-a-failed-write");
        }
        match r {
            Ok(Ok(b2)) => {
                let t2 = refdec::decode(&b2, Some(case.cfg.block_size));
                let what = format!("{nmeta} extra metadata block(s), after a failed write: {poison}; input {} block {}", case.inp.describe(), case.cfg.block_size);
                if let Some(f) = &t2.fatal {
                    out.viol(format!("malformed-variant:{}", normalise(f)), format!("strict reader stops: {f}; {what}"));
                    return out;
                }
                if let Some(v) = t2.violations.iter().find(|v| !v.starts_with("STREAMINFO min block size") && !v.starts_with("STREAMINFO max block size")) {
                    out.viol(format!("rule-variant:{}", normalise(v)), format!("{v}; {what}"));
                    return out;
                }
                if t2.other_blocks.len() != nmeta || t2.samples != tr.samples {
                    out.viol("variant-content-differs", format!("{} metadata blocks read, audio equal: {}; {what}", t2.other_blocks.len(), t2.samples == tr.samples));
                    return out;
                }
            }
            Ok(Err(e)) => {
                out.viol("variant-write-error", e);
                return out;
            }
            Err(p) => {
                out.viol(format!("variant-{}", normalise(&p.sig())), format!("{} at {}", p.msg, p.loc));
                return out;
            }
        }
    }
    // frame-code classes
    for f in &tr.frames {
        out.class(format!("bs-code:{}", f.bs_code));
        out.class(format!("sr-code:{}", f.sr_code));
        out.class(format!("ss-code:{}", f.ss_code));
        out.class(format!("numlen:{}", f.number_len));
    }
    let (predictive, _) = trace_classes(tr, &mut out);
    out.nontrivial = tr.frames.len() >= 2 && predictive;
    out
}

// ---------------------------------------------------------------- (b) finite header code spaces

#[derive(Clone, Debug, Serialize, Deserialize)]
pub struct Span {
    /// "blocklen" | "rate" | "framenum" | "framenum-ctor"
    pub space: String,
    pub start: u64,
    pub count: u64,
    /// only for space "framenum-strata": value = stratum * 2048 + mix(seed, stratum) % 2048
    #[serde(default)]
    pub seed: u64,
}

fn default_cfg() -> &'static Verified<config::Encoder> {
    static C: OnceLock<Verified<config::Encoder>> = OnceLock::new();
    C.get_or_init(|| {
        let mut c = config::Encoder::default();
        c.multithread = false;
        c.into_verified().unwrap()
    })
}

/// Checks one header value; returns Err(signature, detail).
fn check_one(space: &str, v: u64) -> Result<&'static str, (String, String)> {
    let cfg = default_cfg();
    let (block, rate, number) = match space {
        "blocklen" => (v as usize, 44100usize, 0usize),
        "rate" => (32usize, v as usize, 0usize),
        _ => (32usize, 44100usize, v as usize),
    };
    let fail = |sig: &str, d: String| Err((format!("{space}:{sig}"), format!("{space}={v}: {d}")));
    let bytes: Vec<u8> = if space == "framenum-ctor" {
        use flacenc::bitsink::ByteSink;
        use flacenc::component::{BitRepr, ChannelAssignment, FrameHeader, FrameOffset};
        let h = match FrameHeader::new(32, ChannelAssignment::Independent(1), 8, 44100, FrameOffset::Frame(v as u32)) {
            Ok(h) => h,
            Err(e) => return fail("ctor-rejects", format!("{e:?}")),
        };
        let mut s = ByteSink::new();
        if let Err(e) = h.write(&mut s) {
            return fail("write-error", format!("{e:?}"));
        }
        if s.len() != h.count_bits() {
            return fail("count-bits", format!("{} written vs {} counted", s.len(), h.count_bits()));
        }
        // complete it into a frame: constant subframe (8 + 8 bits) + CRC-16
        let mut b = s.into_inner();
        b.extend_from_slice(&[0, 0]);
        let c = refdec::crc16(&b);
        b.extend_from_slice(&c.to_be_bytes());
        b
    } else {
        let si = match StreamInfo::new(rate, 1, 8) {
            Ok(s) => s,
            Err(e) => return fail("streaminfo-rejects", format!("{e:?}")),
        };
        let mut fb = match FrameBuf::with_size(1, block.max(32)) {
            Ok(f) => f,
            Err(e) => return fail("framebuf-rejects", format!("{e:?}")),
        };
        let zeros = vec![0i32; block];
        if let Err(e) = fb.fill_interleaved(&zeros) {
            return fail("fill-rejects", format!("{e:?}"));
        }
        let f = match flacenc::encode_fixed_size_frame(cfg, &fb, number, &si) {
            Ok(f) => f,
            Err(e) => return fail("encode-rejects", format!("{e:?}")),
        };
        match enc::frame_bytes(&f, 1 << 22) {
            Ok(b) => b,
            Err(e) => return fail("write", e),
        }
    };
    let ctx = FrameCtx { rate: Some(rate as u32), bps: Some(8), channels: Some(1), max_block: None };
    let mut viol = vec![];
    match refdec::decode_frame(&bytes, 0, &ctx, number as u64, &mut viol) {
        Err(e) => fail("malformed", e),
        Ok((ft, _, end)) => {
            if let Some(x) = viol.first() {
                return fail(&format!("rule:{}", normalise(x)), x.clone());
            }
            if end != bytes.len() {
                return fail("trailing-bytes", format!("{} of {} bytes used", end, bytes.len()));
            }
            if ft.block_size != block {
                return fail("block-size-differs", format!("header says {}", ft.block_size));
            }
            if ft.rate != Some(rate as u32) {
                return fail("rate-differs", format!("header says {:?}", ft.rate));
            }
            if ft.number != number as u64 || ft.variable {
                return fail("number-differs", format!("header says {} (variable={})", ft.number, ft.variable));
            }
            if ft.bps != 8 || ft.ch_code != 0 {
                return fail("format-differs", format!("bps {} ch_code {}", ft.bps, ft.ch_code));
            }
            Ok(match (space, ft.bs_code, ft.sr_code, ft.number_len) {
                ("blocklen", 6, ..) => "bs:8bit",
                ("blocklen", 7, ..) => "bs:16bit",
                ("blocklen", ..) => "bs:table",
                ("rate", _, 0, _) => "sr:streaminfo",
                ("rate", _, 12, _) => "sr:kHz",
                ("rate", _, 13, _) => "sr:Hz",
                ("rate", _, 14, _) => "sr:daHz",
                ("rate", ..) => "sr:table",
                (_, _, _, 1) => "num:1byte",
                (_, _, _, 2) => "num:2byte",
                (_, _, _, 3) => "num:3byte",
                (_, _, _, 4) => "num:4byte",
                (_, _, _, 5) => "num:5byte",
                (_, _, _, 6) => "num:6byte",
                _ => "num:7byte",
            })
        }
    }
}

pub fn check_span(s: &Span) -> Outcome {
    let mut out = Outcome::new(crate::util::mix(crate::util::fnv_str(&s.space), s.start));
    out.weight = s.count;
    out.nontrivial = false; // counted in bulk below
    let mut classes: std::collections::BTreeMap<&'static str, u64> = Default::default();
    let strata = s.space == "framenum-strata";
    let space = if strata { "framenum" } else { s.space.as_str() };
    for v in s.start..s.start + s.count {
        let v = if strata { v * 2048 + crate::util::mix(s.seed, v) % 2048 } else { v };
        match crate::util::catch(|| check_one(space, v)) {
            Ok(Ok(c)) => *classes.entry(c).or_default() += 1,
            Ok(Err((sig, d))) => {
                out.viol(sig, d);
                return out;
            }
            Err(p) => {
                out.viol(format!("{}:{}", s.space, p.sig()), format!("{}={v}: panic {} at {}", s.space, p.msg, p.loc));
                return out;
            }
        }
    }
    for (c, _) in classes {
        out.class(c);
    }
    out
}

fn span_space(ctx: &Ctx, label: &str, space: &str, lo: u64, hi_incl: u64, chunk: u64) {
    let n = hi_incl - lo + 1;
    let chunks = (n + chunk - 1) / chunk;
    let space_s = space.to_string();
    ctx.enumerate(
        label,
        16,
        chunks,
        |i| Span { space: space_s.clone(), start: lo + i * chunk, count: chunk.min(hi_incl + 1 - (lo + i * chunk)), seed: 0 },
        |s| {
            let o = check_span(s);
            if o.failed() {
                // narrow the replay case to the first failing value
                for v in s.start..s.start + s.count {
                    let one = Span { space: s.space.clone(), start: v, count: 1, seed: 0 };
                    let o1 = check_span(&one);
                    if o1.failed() {
                        return o1;
                    }
                }
            }
            o
        },
    );
    if !ctx.stop.load(std::sync::atomic::Ordering::SeqCst) {
        ctx.bulk_distinct.fetch_add(n, std::sync::atomic::Ordering::Relaxed);
    }
}

/// Self-test of the ORACLE (not of the library): the strict reader must flag a list of hand-made
/// rule breaks applied to a valid emitted stream (checksums recomputed where needed). A rule break
/// that passes silently would make this check vacuous for that rule: reported as inconclusive.
fn oracle_selftest(ctx: &Ctx) {
    use crate::oracle::refdec::{crc16, crc8, decode};
    let mut missed: Vec<String> = vec![];
    let mut tried = 0u64;
    for s in [1u64, 2, 5] {
        let sc = super::c16::small_stream(s);
        let Some(base) = super::c16::base_of(&sc) else { continue };
        let clean = decode(&base.bytes, Some(sc.cfg.block_size));
        if clean.fatal.is_some() || !clean.violations.is_empty() {
            continue; // judged by the search itself
        }
        let (fs, fe, hl) = base.frames[0];
        let fix = |b: &mut Vec<u8>| {
            b[fs + hl - 1] = crc8(&b[fs..fs + hl - 1]);
            let c = crc16(&b[fs..fe - 2]);
            b[fe - 2] = (c >> 8) as u8;
            b[fe - 1] = c as u8;
        };
        let mut muts: Vec<(&str, Vec<u8>)> = vec![];
        let mk = |f: &dyn Fn(&mut Vec<u8>)| {
            let mut b = base.bytes.clone();
            f(&mut b);
            b
        };
        muts.push(("STREAMINFO min block size 15", mk(&|b| { b[8] = 0; b[9] = 15; })));
        muts.push(("STREAMINFO min block size > max block size", mk(&|b| { b[8] = 0x7f; b[9] = 0xff; b[10] = 0; b[11] = 16; })));
        muts.push(("STREAMINFO block sizes (16, 16) smaller than the frames", mk(&|b| { b[8] = 0; b[9] = 16; b[10] = 0; b[11] = 16; })));
        muts.push(("STREAMINFO total samples + 1", mk(&|b| { b[25] = b[25].wrapping_add(1); })));
        muts.push(("STREAMINFO channel count changed", mk(&|b| { b[20] ^= 0x02; })));
        muts.push(("STREAMINFO bits per sample changed", mk(&|b| { b[21] ^= 0x10; })));
        muts.push(("STREAMINFO sample rate changed", mk(&|b| { b[18] ^= 0x01; })));
        muts.push(("last-metadata-block flag cleared", mk(&|b| { b[4] &= 0x7f; })));
        muts.push(("metadata block type 127", mk(&|b| { b[4] = 0x80 | 127; })));
        muts.push(("byte appended after the last frame", mk(&|b| b.push(0))));
        muts.push(("frame header reserved bit set", mk(&|b| { b[fs + 3] |= 1; fix(b); })));
        muts.push(("blocking strategy bit set", mk(&|b| { b[fs + 1] |= 1; fix(b); })));
        muts.push(("reserved sync bit set", mk(&|b| { b[fs + 1] |= 2; fix(b); })));
        muts.push(("sample size code 011", mk(&|b| { b[fs + 3] = (b[fs + 3] & 0xF1) | 0x06; fix(b); })));
        muts.push(("sample rate code 1111", mk(&|b| { b[fs + 2] |= 0x0F; fix(b); })));
        muts.push(("block size code 0000", mk(&|b| { b[fs + 2] &= 0x0F; fix(b); })));
        muts.push(("frame number 1 instead of 0", mk(&|b| { b[fs + 4] = 1; fix(b); })));
        muts.push(("subframe padding bit set", mk(&|b| { b[fs + hl] |= 0x80; fix(b); })));
        muts.push(("subframe type code reserved (000010x)", mk(&|b| { b[fs + hl] = 0x04; fix(b); })));
        muts.push(("CRC-8 wrong", mk(&|b| { b[fs + hl - 1] ^= 0x55; let c = crc16(&b[fs..fe - 2]); b[fe - 2] = (c >> 8) as u8; b[fe - 1] = c as u8; })));
        muts.push(("CRC-16 wrong", mk(&|b| { b[fe - 1] ^= 0x01; })));
        muts.push(("stream marker changed", mk(&|b| { b[3] = b'c'; })));
        for (name, b) in muts {
            tried += 1;
            let tr = decode(&b, Some(sc.cfg.block_size));
            if tr.fatal.is_none() && tr.violations.is_empty() {
                missed.push(format!("stream {s}: {name}"));
            }
        }
    }
    ctx.bump("oracle-selftest:rule-breaks-flagged", tried - missed.len() as u64);
    if !missed.is_empty() || tried == 0 {
        ctx.inconclusive.lock().unwrap().push(format!("oracle self-test: the strict reader did not flag {missed:?} (tried {tried})"));
    }
}

pub fn run(ctx: &Ctx) {
    oracle_selftest(ctx);
    ctx.rule(
        "(a) generated streams, each also re-serialised with 1..4 unknown metadata blocks appended one at a time and / or right after a write into a user sink that failed half-way: strict RFC 9639 reader (harness' own) must report zero rule violations, the expected number of metadata blocks and the same audio; non-trivial = >= 2 frames and >= 1 predictive subframe; \
         (b) finite header code spaces enumerated through encode_fixed_size_frame / FrameHeader::new: every block length 1..=32767, every sample rate 1..=96000 (both exhaustive), frame numbers: quick = all values within +-64 of each UTF-8 length boundary plus a stratified 2^20 sample, thorough = all 2^31; every enumerated value is distinct and counts as non-trivial",
    );
    ctx.assume("STREAMINFO block-size bound rules are checked under C04, not here");
    let per = ctx.tier.scale(600, 10);
    let co = CfgOpts { allow_multithread: true, ..Default::default() };
    ctx.search("stream", 16, per, &|| stream_case_strategy(co, InOpts::default(), true), check_stream);
    ctx.search("stream-small-blocks", 16, per, &|| stream_case_strategy(CfgOpts { allow_multithread: true, max_block: 300, ..Default::default() }, InOpts { budget: 6000, ..Default::default() }, true), check_stream);

    span_space(ctx, "blocklen", "blocklen", 1, 32767, 64);
    span_space(ctx, "rate", "rate", 1, 96000, 256);
    // frame numbers
    let bounds: [u64; 7] = [0, 1 << 7, 1 << 11, 1 << 16, 1 << 21, 1 << 26, (1 << 31) - 1];
    for b in bounds {
        let lo = b.saturating_sub(64);
        let hi = (b + 64).min((1 << 31) - 1);
        span_space(ctx, "framenum-boundary", "framenum", lo, hi, 16);
        span_space(ctx, "framenum-ctor-boundary", "framenum-ctor", lo, hi, 16);
    }
    if ctx.tier == Tier::Thorough {
        span_space(ctx, "framenum-all", "framenum", 0, (1u64 << 31) - 1, 1 << 16);
        span_space(ctx, "framenum-ctor-all", "framenum-ctor", 0, (1u64 << 31) - 1, 1 << 16);
        ctx.exhaustive.store(true, std::sync::atomic::Ordering::Relaxed);
        ctx.set_extra("exhaustive_spaces", serde_json::json!(["block length 1..=32767", "sample rate 1..=96000", "frame number 0..2^31-1 (encoder entry point and FrameHeader::new)"]));
        crate::fuzzrun::campaign(ctx, "fz_encode", 8, crate::fuzzrun::runs(30_000), 24_000);
    } else {
        // stratified sample: 2^20 strata of 2^11 values, one value per stratum chosen from the seed
        let seed = ctx.seed;
        let strata: u64 = 1 << 20;
        let chunk = 1u64 << 10;
        ctx.enumerate(
            "framenum-stratified",
            16,
            strata / chunk,
            |i| Span { space: "framenum-strata".into(), start: i * chunk, count: chunk, seed },
            check_span,
        );
        ctx.bulk_distinct.fetch_add(strata, std::sync::atomic::Ordering::Relaxed);
        ctx.set_extra("exhaustive_spaces", serde_json::json!(["block length 1..=32767", "sample rate 1..=96000"]));
        ctx.set_extra("sampled_spaces", serde_json::json!(["frame number: +-64 around every UTF-8 length boundary, and one value in each of 2^20 strata of width 2048"]));
    }
}

pub fn replay(path: &str) -> Result<Outcome, String> {
    let (kind, case) = crate::core::replay_kind(path)?;
    if kind.starts_with("stream") {
        let c: StreamCase = serde_json::from_value(case).map_err(|e| e.to_string())?;
        Ok(check_stream(&c))
    } else {
        let s: Span = serde_json::from_value(case).map_err(|e| e.to_string())?;
        Ok(check_span(&s))
    }
}
