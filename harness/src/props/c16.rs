//! C16 The parser never panics and never accepts an altered frame.

use super::common::*;
use crate::core::{Ctx, Outcome, Tier};
use crate::gen::{CfgOpts, InOpts};
use crate::oracle::refdec;
use crate::util::{catch, Sm64};
use flacenc::component::{parser, Decode};
use proptest::prelude::*;
use serde::{Deserialize, Serialize};
use std::collections::HashMap;
use std::sync::{Arc, Mutex};

pub struct Base {
    pub bytes: Vec<u8>,
    pub samples: Vec<i32>,
    /// (start, end, header_len) of every frame
    pub frames: Vec<(usize, usize, usize)>,
}

static BASES: Mutex<Option<HashMap<u64, Option<Arc<Base>>>>> = Mutex::new(None);

pub fn base_of(case: &StreamCase) -> Option<Arc<Base>> {
    let key = case.fp();
    if let Some(b) = BASES.lock().unwrap().get_or_insert_with(HashMap::new).get(&key) {
        return b.clone();
    }
    let b = run_stream(case).ok().and_then(|r| {
        if r.trace.fatal.is_some() || r.trace.frames.is_empty() {
            return None;
        }
        Some(Arc::new(Base { frames: r.trace.frames.iter().map(|f| (f.start, f.end, f.header_len)).collect(), bytes: r.bytes, samples: r.samples }))
    });
    BASES.lock().unwrap().get_or_insert_with(HashMap::new).insert(key, b.clone());
    b
}

/// Result of feeding bytes to the stream parser.
enum Parsed {
    Panic(crate::util::PanicInfo),
    Rejected,
    /// accepted; decoded audio (None if decoding panicked -> PanicInfo)
    Accepted(Result<Vec<i32>, crate::util::PanicInfo>),
}

fn parse(bytes: &[u8]) -> Parsed {
    match catch(|| parser::stream::<nom::error::Error<&[u8]>>(bytes).map(|(_rest, s)| s).ok()) {
        Err(p) => Parsed::Panic(p),
        Ok(None) => Parsed::Rejected,
        Ok(Some(stream)) => Parsed::Accepted(catch(|| {
            let mut out = vec![];
            for n in 0..stream.frame_count() {
                out.extend(stream.frame(n).unwrap().decode());
            }
            out
        })),
    }
}

fn judge(out: &mut Outcome, base: &Base, mutant: &[u8], what: &str, strict_accept: bool) -> bool {
    match parse(mutant) {
        Parsed::Panic(p) => {
            out.viol(format!("parser-panic:{}", normalise(&p.sig())), format!("{what}: parser panicked: {} at {}", p.msg, p.loc));
            false
        }
        Parsed::Rejected => true,
        Parsed::Accepted(Err(p)) => {
            out.viol(format!("decode-panic:{}", normalise(&p.sig())), format!("{what}: accepted by the parser, decoding panicked: {} at {}", p.msg, p.loc));
            false
        }
        Parsed::Accepted(Ok(audio)) => {
            if strict_accept && audio != base.samples {
                out.viol("altered-frame-accepted-with-different-audio", format!("{what}: the altered stream was accepted and decodes to different audio ({} vs {} samples)", audio.len(), base.samples.len()));
                return false;
            }
            out.class(if audio == base.samples { "accepted:same-audio" } else { "accepted:different-audio(crc-fixed)" });
            true
        }
    }
}

#[derive(Clone, Debug, Serialize, Deserialize)]
pub struct ByteCase {
    pub base: StreamCase,
    /// byte position inside the stream at which all bursts start
    pub byte: usize,
    /// restrict to one mutant: (bit offset 0..8, burst length 1..=8, interior pattern)
    pub only: Option<(u8, u8, u8)>,
    /// only single-bit flips, 2-bit bursts and the two extreme 8-bit bursts (large frames)
    #[serde(default)]
    pub sparse: bool,
}

/// Streams whose consecutive frames are (nearly) identical: piecewise-constant levels that differ in one or
/// a few adjacent bits, and a noise block repeated with a one-sample change under a verbatim-only
/// configuration, so that a short burst can turn one frame body into a copy of its neighbour.
pub fn near_repeat_streams() -> Vec<StreamCase> {
    use crate::gen::{ChanSpec, CfgSpec, InputSpec};
    let mut v = vec![];
    let mk = |cfg: CfgSpec, channels: usize, bps: usize, samples: Vec<i32>, seed: u64| {
        let len = samples.len() / channels;
        StreamCase { cfg, inp: InputSpec { channels, bps, rate: 16000, len, chans: vec![ChanSpec { segs: vec![] }; channels], rel: 0, seed, explicit: Some(samples) }, entry: Entry::Single, src: crate::enc::SrcKind::Mem }
    };
    let mut dflt = CfgSpec::default();
    dflt.block_size = 32;
    let mut verb = dflt.clone();
    verb.use_constant = false;
    verb.use_fixed = false;
    verb.use_lpc = false;
    verb.ls = false;
    verb.rs = false;
    verb.ms = false;
    // constant blocks: levels 5, 4, 4, 7, -1, 0
    for (k, (channels, bps)) in [(1usize, 8usize), (2, 16), (1, 12)].into_iter().enumerate() {
        let levels = [5i32, 4, 4, 7, -1, 0];
        let mut s = vec![];
        for l in levels {
            for _ in 0..32 {
                for c in 0..channels {
                    s.push(if c == 0 { l } else { 3 });
                }
            }
        }
        v.push(mk(dflt.clone(), channels, bps, s, 7000 + k as u64));
    }
    // a noise block repeated; repeats differ from their predecessor in one sample by one / a few low bits
    for (k, (channels, bps)) in [(1usize, 8usize), (2, 8), (1, 16)].into_iter().enumerate() {
        let mut r = Sm64::new(77 + k as u64);
        let lo = -(1i64 << (bps - 1));
        let hi = (1i64 << (bps - 1)) - 1;
        let blk: Vec<i32> = (0..32 * channels).map(|_| r.range_i64(lo / 2, hi / 2) as i32).collect();
        let mut s = vec![];
        let mut cur = blk.clone();
        for f in 0..4usize {
            if f == 1 {
                cur[5 * channels] ^= 1;
            } else if f == 2 {
                cur[17 * channels + channels - 1] ^= 6;
            }
            // f == 3: exact repeat of frame 2
            s.extend_from_slice(&cur);
        }
        v.push(mk(verb.clone(), channels, bps, s, 7100 + k as u64));
    }
    // unit values where a corrupted field multiplies, shifts or sign-extends them: constant blocks of 1, -1, 0, 2, -2
    // and verbatim blocks whose first sample is 1, -1, 0, the minimum, the maximum
    for (k, (channels, bps)) in [(1usize, 16usize), (2, 8), (1, 24)].into_iter().enumerate() {
        let mut s = vec![];
        for l in [1i32, -1, 0, 2, -2] {
            for _ in 0..32 {
                for c in 0..channels {
                    s.push(if c == 0 { l } else { -l });
                }
            }
        }
        v.push(mk(dflt.clone(), channels, bps, s, 7200 + k as u64));
    }
    for (k, (channels, bps)) in [(1usize, 8usize), (2, 16)].into_iter().enumerate() {
        let mut r = Sm64::new(99 + k as u64);
        let lo = -(1i64 << (bps - 1));
        let hi = (1i64 << (bps - 1)) - 1;
        let mut s = vec![];
        for first in [1i64, -1, 0, lo, hi] {
            for t in 0..32 * channels {
                s.push(if t < channels { first as i32 } else { r.range_i64(lo, hi) as i32 });
            }
        }
        v.push(mk(verb.clone(), channels, bps, s, 7300 + k as u64));
    }
    v
}

/// A stream with frames of 64 KiB and more (largest block sizes, incompressible wide input).
pub fn large_frame_streams() -> Vec<StreamCase> {
    use crate::gen::{ChanSpec, CfgSpec, InputSpec};
    let mut v = vec![];
    for (k, (channels, bps, block)) in [(2usize, 24usize, 16384usize), (1, 16, 32767), (3, 24, 32767)].into_iter().enumerate() {
        let mut cfg = CfgSpec::default();
        cfg.block_size = block;
        let mut r = Sm64::new(9100 + k as u64);
        let lo = -(1i64 << (bps - 1));
        let hi = (1i64 << (bps - 1)) - 1;
        let len = block + 40;
        let samples: Vec<i32> = (0..len * channels).map(|_| r.range_i64(lo, hi) as i32).collect();
        v.push(StreamCase { cfg, inp: InputSpec { channels, bps, rate: 48000, len, chans: vec![ChanSpec { segs: vec![] }; channels], rel: 0, seed: 9100 + k as u64, explicit: Some(samples) }, entry: Entry::Single, src: crate::enc::SrcKind::Mem });
    }
    v
}

/// All single-bit flips and all bursts of length 2..=8 starting in byte `byte`, plus truncation there.
pub fn check_byte(case: &ByteCase) -> Outcome {
    let mut out = Outcome::new(case.base.fp() ^ (case.byte as u64).wrapping_mul(0x9E37_79B9));
    let Some(base) = base_of(&case.base) else {
        out.class("skipped:no-base-stream");
        return out;
    };
    let n = base.bytes.len();
    if case.byte >= n {
        return out;
    }
    let in_frame = base.frames.iter().find(|f| case.byte >= f.0 && case.byte < f.1).copied();
    let mut work = base.bytes.clone();
    let mut count = 0u64;
    let nbits = n * 8;
    for off in 0..8u8 {
        for len in 1..=8u8 {
            let npat = if len <= 2 { 1u16 } else { 1u16 << (len - 2) };
            for pat in 0..npat {
                if let Some(o) = case.only {
                    if o != (off, len, pat as u8) {
                        continue;
                    }
                }
                if case.sparse && !(len <= 2 || (len == 8 && (pat == 0 || pat == npat - 1))) {
                    continue;
                }
                let start = case.byte * 8 + off as usize;
                if start + len as usize > nbits {
                    continue;
                }
                // burst mask: first and last bit flipped, interior from `pat`
                let mut flipped = vec![];
                for i in 0..len as usize {
                    let f = i == 0 || i == len as usize - 1 || (pat >> (i - 1)) & 1 == 1;
                    if f {
                        let b = start + i;
                        work[b / 8] ^= 0x80 >> (b % 8);
                        flipped.push(b);
                    }
                }
                count += 1;
                // the "different audio" oracle applies to alterations inside a frame
                let inside = in_frame.map_or(false, |f| flipped.iter().all(|b| b / 8 >= f.0 && b / 8 < f.1));
                let ok = judge(&mut out, &base, &work, &format!("burst of {len} bit(s) pattern {pat:#x} at byte {} bit {off}", case.byte), inside);
                for b in flipped {
                    work[b / 8] ^= 0x80 >> (b % 8);
                }
                if !ok {
                    out.weight = count;
                    return out;
                }
                if inside {
                    let f = in_frame.unwrap();
                    if case.byte >= f.0 + 2 {
                        out.nontrivial = true;
                    }
                }
            }
        }
    }
    // truncation at this byte
    if case.only.is_none() {
        count += 1;
        if !judge(&mut out, &base, &base.bytes[..case.byte], &format!("truncated to {} bytes", case.byte), false) {
            out.weight = count;
            return out;
        }
    }
    out.weight = count.max(1);
    out.class(if in_frame.is_some() { "position:frame" } else { "position:metadata" });
    out
}

#[derive(Clone, Debug, Serialize, Deserialize)]
pub struct BlobCase {
    /// base stream to mutate (None: purely random bytes)
    pub base: Option<StreamCase>,
    pub seed: u64,
    /// number of mutations
    pub muts: usize,
    /// recompute CRC-8/CRC-16 of the touched frame (reaches the code behind the checksums)
    pub fix_crc: bool,
    pub len: usize,
}

pub fn mutate(base: &Base, seed: u64, muts: usize, fix_crc: bool) -> Vec<u8> {
    let mut rng = Sm64::new(seed);
    let mut b = base.bytes.clone();
    let fi = rng.below(base.frames.len() as u64) as usize;
    let (fs, fe, hl) = base.frames[fi];
    for _ in 0..muts.max(1) {
        let pos = fs + 2 + rng.below((fe - fs - 2) as u64) as usize;
        match rng.below(6) {
            0 => b[pos] ^= 1 << rng.below(8),
            1 => b[pos] = rng.next() as u8,
            2 => b[pos] = [0x00, 0xFF, 0x80, 0x7F, 0x01, 0xFE][rng.below(6) as usize],
            3 => {
                // subframe header byte right after the frame header: type / wasted-bits flag
                let p = (fs + hl).min(fe - 1);
                b[p] = rng.next() as u8;
            }
            4 => {
                // LPC precision/shift and partition order live in the first bytes after warm-up
                let p = (fs + hl + 1 + rng.below(40) as usize).min(fe - 3);
                b[p] ^= (rng.next() as u8) | 1;
            }
            _ => {
                // header fields
                let p = fs + 2 + rng.below((hl.max(3) - 2) as u64) as usize;
                b[p] = rng.next() as u8;
            }
        }
    }
    if rng.below(8) == 0 {
        // STREAMINFO fields are not protected by any checksum
        let p = 8 + rng.below(18) as usize;
        if p < b.len() {
            b[p] = rng.next() as u8;
        }
    }
    if fix_crc {
        if hl >= 2 && fs + hl <= fe {
            b[fs + hl - 1] = refdec::crc8(&b[fs..fs + hl - 1]);
        }
        let c = refdec::crc16(&b[fs..fe - 2]);
        b[fe - 2] = (c >> 8) as u8;
        b[fe - 1] = c as u8;
    }
    b
}

pub fn check_blob(case: &BlobCase) -> Outcome {
    let mut out = Outcome::new(crate::util::fnv(serde_json::to_string(case).unwrap_or_default().as_bytes()));
    match &case.base {
        None => {
            let mut rng = Sm64::new(case.seed);
            let mut b: Vec<u8> = (0..case.len).map(|_| rng.next() as u8).collect();
            // half of the blobs start like a stream so that the parser gets past the marker
            if case.seed % 2 == 0 && b.len() >= 8 {
                b[..4].copy_from_slice(b"fLaC");
                if case.seed % 4 == 0 && b.len() > 46 {
                    b[4] = 0x80;
                    b[5] = 0;
                    b[6] = 0;
                    b[7] = 34;
                    b[42] = 0xFF;
                    b[43] = 0xF8;
                }
            }
            let dummy = Base { bytes: vec![], samples: vec![], frames: vec![] };
            judge(&mut out, &dummy, &b, "random bytes", false);
            out.class("random-bytes");
            out.nontrivial = case.seed % 2 == 0;
        }
        Some(sc) => {
            let Some(base) = base_of(sc) else {
                out.class("skipped:no-base-stream");
                return out;
            };
            let m = mutate(&base, case.seed, case.muts, case.fix_crc);
            judge(&mut out, &base, &m, &format!("structure-aware mutation (seed {}, {} mutation(s), crc fixed: {})", case.seed, case.muts, case.fix_crc), false);
            out.class(if case.fix_crc { "mutation:crc-fixed" } else { "mutation:raw" });
            out.nontrivial = true;
        }
    }
    out
}

/// Explicit bytes (fuzzer-produced): either raw bytes, or byte edits of one of the 24 small emitted
/// streams, optionally with the checksums of the touched frames recomputed.
#[derive(Clone, Debug, Serialize, Deserialize)]
pub struct RawCase {
    pub base: Option<u64>,
    pub hex: String,
    /// (position relative to the first frame, modulo the frame region; xor mask, 0 means "set to 0xFF")
    pub edits: Vec<(u16, u8)>,
    pub fix_crc: bool,
}

pub fn check_raw(case: &RawCase) -> Outcome {
    let mut out = Outcome::new(crate::util::fnv(serde_json::to_string(case).unwrap_or_default().as_bytes()));
    match case.base {
        None => {
            let b = crate::util::unhex(&case.hex);
            let dummy = Base { bytes: vec![], samples: vec![], frames: vec![] };
            judge(&mut out, &dummy, &b, "fuzzer bytes", false);
            out.class("raw-bytes");
            out.nontrivial = b.starts_with(b"fLaC");
        }
        Some(s) => {
            let Some(base) = base_of(&small_stream(s % 24)) else {
                out.class("skipped:no-base-stream");
                return out;
            };
            let mut b = base.bytes.clone();
            let f0 = base.frames[0].0;
            let region = b.len() - f0;
            let mut touched: Vec<usize> = vec![];
            for (pos, x) in &case.edits {
                let p = f0 + (*pos as usize) % region;
                if *x == 0 {
                    b[p] = 0xFF;
                } else {
                    b[p] ^= *x;
                }
                if let Some(fi) = base.frames.iter().position(|f| p >= f.0 && p < f.1) {
                    if !touched.contains(&fi) {
                        touched.push(fi);
                    }
                }
            }
            if case.fix_crc {
                for fi in &touched {
                    let (fs, fe, hl) = base.frames[*fi];
                    if hl >= 2 && fs + hl <= fe {
                        b[fs + hl - 1] = refdec::crc8(&b[fs..fs + hl - 1]);
                    }
                    let c = refdec::crc16(&b[fs..fe - 2]);
                    b[fe - 2] = (c >> 8) as u8;
                    b[fe - 1] = c as u8;
                }
            }
            // the same-audio oracle is the property's: alterations confined to ONE run of at most 8 bits
            // inside one frame (CRC-16 guarantees the detection of such bursts; two edits further apart can
            // collide, and then the result is simply another valid stream)
            let altered: Vec<usize> = (0..b.len() * 8).filter(|i| (b[i / 8] ^ base.bytes[i / 8]) & (0x80 >> (i % 8)) != 0).collect();
            let span = altered.last().map_or(0, |l| l - altered[0] + 1);
            let strict = !case.fix_crc && touched.len() == 1 && !altered.is_empty() && span <= 8;
            if !case.fix_crc && !altered.is_empty() {
                out.class(if span <= 8 { "edits:one-run<=8-bits(same-audio oracle applies)" } else { "edits:wider-than-8-bits(panic oracle only)" });
            }
            judge(&mut out, &base, &b, &format!("byte edits {:?} of small stream {s} (crc fixed: {})", case.edits, case.fix_crc), strict);
            out.class(if case.fix_crc { "edits:crc-fixed" } else { "edits:raw" });
            out.nontrivial = !case.edits.is_empty();
        }
    }
    out
}

/// Diagnostic for a `RawCase` replay file: which bytes differ and what the two independent readers say.
pub fn analyze_raw(path: &str) -> Result<(), String> {
    let (_k, case) = crate::core::replay_kind(path)?;
    let case: RawCase = serde_json::from_value(case).map_err(|e| e.to_string())?;
    let Some(s) = case.base else { return Err("raw bytes case".into()) };
    let sc = small_stream(s % 24);
    let base = base_of(&sc).ok_or("no base")?;
    let mut b = base.bytes.clone();
    let f0 = base.frames[0].0;
    let region = b.len() - f0;
    for (pos, x) in &case.edits {
        let p = f0 + (*pos as usize) % region;
        let old = b[p];
        if *x == 0 { b[p] = 0xFF } else { b[p] ^= *x }
        let fi = base.frames.iter().position(|f| p >= f.0 && p < f.1);
        println!("edit at byte {p} (frame {fi:?}, frame ranges {:?}): {old:#04x} -> {:#04x}", base.frames, b[p]);
    }
    let tr = refdec::decode(&b, Some(sc.cfg.block_size));
    println!("refdec: fatal={:?} violations={:?} samples equal to original: {}", tr.fatal, tr.violations.iter().take(5).collect::<Vec<_>>(), tr.samples == base.samples);
    println!("claxon: {:?}", crate::enc::claxon_decode(&b).map(|(s, _)| s == base.samples));
    for (i, f) in base.frames.iter().enumerate() {
        println!("frame {i}: crc16 stored {:02x}{:02x} computed {:04x}", b[f.1 - 2], b[f.1 - 1], refdec::crc16(&b[f.0..f.1 - 2]));
    }
    Ok(())
}

pub fn small_stream(i: u64) -> StreamCase {
    super::c12::crafted_base(i)
}

pub fn run(ctx: &Ctx) {
    ctx.rule(
        "fault enumeration on small emitted streams (8 crafted streams in quick, + generated ones in thorough; mono/stereo, all subframe kinds, 1..=4 frames; plus the head and the last six frames of a 130-frame stream, whose frame numbers need two bytes; plus 6 streams whose consecutive frames are identical or one short burst apart - constant levels 5/4/4/7/-1/0, a repeated noise block with one-sample changes under a verbatim-only configuration; plus 5 streams of unit values: constant blocks of 1/-1/0/2/-2 and verbatim blocks whose first sample is 1/-1/0/min/max): at EVERY byte position every single-bit flip and every burst of length 2..=8 (first and last bit flipped, all interior patterns) at every bit offset, and truncation at every byte; for a stream with a 98 KiB frame (thorough: also 64 KiB and 290 KiB frames) the same at ~200 sampled byte positions per frame (header, CRC, around offsets 2^16 and 2^17, spread) with the burst set {1 bit, 2 bits, 8 bits with all / no interior bits}; \
         oracle: catch_unwind(parser::stream) never unwinds; if the mutant is accepted its frames decode without panic and, when all altered bits lie inside one frame, to the original audio; \
         second part (panic oracle only): random byte strings and structure-aware mutations of frames with CRC-8/CRC-16 recomputed so that the code behind the checksums is reached; \
         evaluations = number of mutants parsed; non-trivial = alteration inside a frame that leaves the sync code intact; distinct by (stream, byte position)",
    );
    ctx.assume("a CRC-16 collision after a mutation that moves the frame boundary is possible in principle; none has been observed");
    let nstreams: u64 = if ctx.tier == Tier::Thorough { 24 } else { 8 };
    for s in 0..nstreams {
        let sc = small_stream(s);
        let Some(base) = base_of(&sc) else { continue };
        let n = base.bytes.len() as u64;
        ctx.enumerate(&format!("bursts-stream-{s}"), 16, n, |i| ByteCase { base: sc.clone(), byte: i as usize, only: None, sparse: false }, |c| {
            let o = check_byte(c);
            if o.failed() && c.only.is_none() {
                // narrow to the single failing mutant for the replay file
                for off in 0..8u8 {
                    for len in 1..=8u8 {
                        let npat = if len <= 2 { 1u16 } else { 1u16 << (len - 2) };
                        for pat in 0..npat {
                            let one = ByteCase { base: c.base.clone(), byte: c.byte, only: Some((off, len, pat as u8)), sparse: false };
                            let o1 = check_byte(&one);
                            if o1.failed() {
                                return o1;
                            }
                        }
                    }
                }
            }
            o
        });
    }
    // a stream of 130 small frames: multi-byte frame numbers (>= 128) in the last frames, so that
    // truncations and bursts hit the number's continuation bytes
    if let Some(sc) = super::common::many_frames_cases(false).into_iter().find(|c| c.inp.len / c.cfg.block_size >= 129 && c.inp.bps == 8 && c.entry == Entry::Single) {
        if let Some(base) = base_of(&sc) {
            let n = base.bytes.len() as u64;
            // the first frames are all alike: enumerate the STREAMINFO, the first two and the last six frames
            let keep: Vec<u64> = (0..n).filter(|i| (*i as usize) < base.frames[2.min(base.frames.len() - 1)].0 || (*i as usize) >= base.frames[base.frames.len().saturating_sub(6)].0).collect();
            ctx.enumerate("bursts-stream-many-frames", 16, keep.len() as u64, |i| ByteCase { base: sc.clone(), byte: keep[i as usize] as usize, only: None, sparse: false }, check_byte);
        }
    }
    // consecutive frames that are one short burst apart (a burst can make a frame body a copy of its neighbour)
    for (k, sc) in near_repeat_streams().into_iter().enumerate() {
        let Some(base) = base_of(&sc) else { continue };
        let n = base.bytes.len() as u64;
        ctx.enumerate(&format!("bursts-near-repeated-frames-{k}"), 16, n, |i| ByteCase { base: sc.clone(), byte: i as usize, only: None, sparse: false }, check_byte);
    }
    // frames of 64 KiB and more: sampled byte positions (header, start and end of every subframe region, the
    // CRC, spread positions), sparse burst set
    for (k, sc) in large_frame_streams().into_iter().enumerate() {
        if k > 0 && ctx.tier != Tier::Thorough {
            break;
        }
        let Some(base) = base_of(&sc) else { continue };
        let mut pos: Vec<usize> = vec![];
        for f in &base.frames {
            let (a, b) = (f.0, f.1);
            pos.extend(a..(a + 24).min(b));
            pos.extend(b.saturating_sub(6)..b);
            let span = b - a;
            let step = (span / if ctx.tier == Tier::Thorough { 600 } else { 150 }).max(1);
            pos.extend((a..b).step_by(step).map(|p| p + (p * 7919) % step.min(b - p).max(1)));
            for p in [65535usize, 65536, 65537, 131071, 131072] {
                if a + p < b {
                    pos.push(a + p);
                }
            }
        }
        pos.sort();
        pos.dedup();
        pos.retain(|p| *p < base.bytes.len());
        let big = base.frames.iter().map(|f| f.1 - f.0).max().unwrap_or(0);
        ctx.set_extra(&format!("large_frame_stream_{k}"), serde_json::json!({"largest_frame_bytes": big, "positions": pos.len()}));
        ctx.enumerate(&format!("bursts-large-frame-{k}"), 16, pos.len() as u64, |i| ByteCase { base: sc.clone(), byte: pos[i as usize], only: None, sparse: true }, check_byte);
    }
    let per = ctx.tier.scale(60000, 8);
    ctx.search("random-bytes", 16, per, &|| (any::<u64>(), 0usize..400).prop_map(|(seed, len)| BlobCase { base: None, seed, muts: 0, fix_crc: false, len }), check_blob);
    ctx.search("mutations", 16, per * 4, &|| (0u64..24, any::<u64>(), 1usize..=4, prop_oneof![3 => Just(true), 1 => Just(false)]).prop_map(|(s, seed, muts, fix_crc)| BlobCase { base: Some(small_stream(s)), seed, muts, fix_crc, len: 0 }), check_blob);
    if ctx.tier == Tier::Thorough {
        ctx.search("mutations-generated-streams", 16, 4000, &|| {
            (stream_case_strategy(CfgOpts { max_block: 256, ..Default::default() }, InOpts { budget: 1500, max_channels: 3, ..Default::default() }, false), any::<u64>(), 1usize..=4, any::<bool>())
                .prop_map(|(b, seed, muts, fix_crc)| BlobCase { base: Some(b), seed, muts, fix_crc, len: 0 })
        }, check_blob);
        crate::fuzzrun::campaign(ctx, "fz_parse", 8, crate::fuzzrun::runs(500_000), 2048);
    }
}

pub fn replay(path: &str) -> Result<Outcome, String> {
    let (kind, case) = crate::core::replay_kind(path)?;
    if case.get("hex").is_some() {
        return Ok(check_raw(&serde_json::from_value(case).map_err(|e| e.to_string())?));
    }
    if kind.starts_with("bursts") || case.get("byte").is_some() {
        Ok(check_byte(&serde_json::from_value(case).map_err(|e| e.to_string())?))
    } else {
        Ok(check_blob(&serde_json::from_value(case).map_err(|e| e.to_string())?))
    }
}
