//! C04 STREAMINFO block-size and frame-size bounds are valid and exact.

use super::common::*;
use crate::core::{Ctx, Outcome};
use crate::enc::{self, SrcKind};
use crate::gen::{CfgOpts, CfgSpec, ChanSpec, InOpts, InputSpec, Seg};
use proptest::prelude::*;

pub fn check(case: &StreamCase) -> Outcome {
    let mut out = Outcome::new(case.fp());
    out.class(format!("entry:{:?}", case.entry));
    let block = case.cfg.block_size;
    let r = case.inp.len % block;
    let mut run = match run_stream(case) {
        Ok(r) => r,
        Err(e) => {
            out.class(format!("skipped:{}", match e {
                RunErr::Panic(_) => "encode-panic(C01)",
                RunErr::Oversized(_) => "oversized(C09)",
                _ => "encode-error(C01)",
            }));
            return out;
        }
    };
    let tr = &run.trace;
    if let Some(f) = &tr.fatal {
        out.class(format!("skipped:undecodable(C01/C02):{}", normalise(f)));
        return out;
    }
    if tr.frames.is_empty() {
        out.class("no-frames");
        return out;
    }
    let i = &tr.info;
    let ctxs = format!("block {block}, len {} (residue {r}), entry {:?}, {} frames", case.inp.len, case.entry, tr.frames.len());
    // The frame-level entry point leaves STREAMINFO finalisation to the caller (the harness mirrors
    // what the stream-level entry point does), so block-size bounds are judged on stream-level entry points.
    let judge_blocks = case.entry != Entry::Frames;
    if judge_blocks {
        if i.max_block as usize != block {
            out.viol("max-block-size-not-requested", format!("STREAMINFO max block size {} != requested; {ctxs}", i.max_block));
            return out;
        }
        if i.min_block < 16 {
            out.viol("min-block-size-below-16", format!("STREAMINFO min block size {} < 16 (RFC 9639 8.2); {ctxs}", i.min_block));
            return out;
        }
        let n = tr.frames.len();
        if let Some(f) = tr.frames[..n - 1].iter().find(|f| (f.block_size as u32) < i.min_block) {
            out.viol("min-block-size-above-a-non-final-frame", format!("min block size {} > non-final frame of {}; {ctxs}", i.min_block, f.block_size));
            return out;
        }
        if i.min_block > i.max_block {
            out.viol("min-block-size-above-max", format!("{} > {}; {ctxs}", i.min_block, i.max_block));
            return out;
        }
    }
    let mn = tr.frames.iter().map(|f| f.end - f.start).min().unwrap();
    let mx = tr.frames.iter().map(|f| f.end - f.start).max().unwrap();
    if i.min_frame as usize != mn {
        out.viol("min-frame-size-inexact", format!("STREAMINFO min frame size {} but the smallest frame has {mn} bytes; {ctxs}", i.min_frame));
        return out;
    }
    if i.max_frame as usize != mx {
        out.viol("max-frame-size-inexact", format!("STREAMINFO max frame size {} but the largest frame has {mx} bytes; {ctxs}", i.max_frame));
        return out;
    }
    // accessors agree with the bytes
    let si = run.stream.stream_info();
    if si.min_block_size() != i.min_block as usize || si.max_block_size() != i.max_block as usize || si.min_frame_size() != i.min_frame as usize || si.max_frame_size() != i.max_frame as usize {
        out.viol("accessor-disagrees-with-bytes", format!("accessors {:?} vs bytes {:?}", (si.min_block_size(), si.max_block_size(), si.min_frame_size(), si.max_frame_size()), i));
        return out;
    }
    // a strict third-party reader accepts the stream
    if judge_blocks {
        match enc::claxon_decode(&run.bytes) {
            Ok(_) => out.class("claxon:accepts"),
            Err(e) => {
                if tr.violations.is_empty() {
                    out.class("claxon:rejects-rule-clean-stream");
                } else if e.contains("block size") {
                    out.viol("strict-reader-rejects-block-size-bounds", format!("claxon: {e}; {ctxs}"));
                    return out;
                }
            }
        }
    }
    // "length unknown": a caller may declare the total number of samples unknown (0, RFC 9639 8.2) after assembling
    // the stream; the frame-size bounds of the frames that are present must be written all the same
    if case.inp.seed % 2 == 0 {
        run.stream.stream_info_mut().set_total_samples(0);
        let s2 = &run.stream;
        match crate::util::catch(|| enc::stream_bytes(s2, enc::sane_bits(run.samples.len() + 4096, case.inp.bps))) {
            Ok(Ok(b2)) if b2.len() >= 42 => {
                let mnf = u32::from_be_bytes([0, b2[12], b2[13], b2[14]]) as usize;
                let mxf = u32::from_be_bytes([0, b2[15], b2[16], b2[17]]) as usize;
                out.class("variant:total-samples-unknown(0)");
                if mnf != mn || mxf != mx || b2[..8] != run.bytes[..8] || b2[42..] != run.bytes[42..] {
                    out.viol("frame-size-bounds-lost-when-total-is-unknown", format!("after set_total_samples(0) the stream states frame sizes {mnf}..{mxf}, the frames have {mn}..{mx} bytes; {ctxs}"));
                    return out;
                }
            }
            Ok(Ok(_)) | Ok(Err(_)) => out.class("skipped:unknown-total-variant-unwritable"),
            Err(p) => {
                out.viol(format!("unknown-total-variant-{}", normalise(&p.sig())), p.msg);
                return out;
            }
        }
    }
    if r != 0 {
        out.nontrivial = true;
        out.class(if r < 16 { "final-block:<16" } else { "final-block:short" });
    }
    if case.inp.len < block {
        out.class("shorter-than-one-block");
    }
    out
}

fn simple_input(len: usize, seed: u64) -> InputSpec {
    InputSpec { channels: 1, bps: 16, rate: 44100, len, chans: vec![ChanSpec { segs: vec![Seg { class: 4, amp: 3, p: 12345 }] }], rel: 0, seed, explicit: None }
}

pub fn run(ctx: &Ctx) {
    ctx.rule(
        "exhaustive part: every input length k*B + r for B in {32, 192}, r in 0..B, k in 0..=2, single- and multi-thread; many-frames part: streams of 127..4100 (thorough: up to 70000) frames of 32/64 samples (silence, tone, quiet-then-loud) through all three entry points, so that the smallest / largest frames carry multi-byte frame numbers; generated part: (config, input, entry point) with final-block residues 1..=15 forced in 30% of cases; \
         oracle from the reference decoder's trace: max_block = requested, 16 <= min_block <= every non-final frame, min/max frame size = smallest/largest emitted frame, claxon accepts; half of the cases are serialised again after set_total_samples(0) (length unknown): the frame-size bounds and every frame byte must be unchanged; \
         non-trivial = final block shorter than the block size (r != 0); distinct by case hash",
    );
    ctx.assume("for the frame-level entry point the caller finalises STREAMINFO; block-size bounds are judged on the two stream-level entry points, frame-size bounds on all three");
    // exhaustive residues
    for &b in &[32usize, 192] {
        for multi in [false, true] {
            let n = (3 * b) as u64;
            ctx.enumerate(
                &format!("residues-B{b}-{}", if multi { "multi" } else { "single" }),
                16,
                n,
                |i| {
                    let (k, r) = ((i as usize) / b, (i as usize) % b);
                    let mut cfg = CfgSpec::default();
                    cfg.block_size = b;
                    cfg.multithread = multi;
                    cfg.workers = Some(2);
                    StreamCase { cfg, inp: simple_input(k * b + r, i), entry: if multi { Entry::Multi } else { Entry::Single }, src: SrcKind::Mem }
                },
                check,
            );
        }
    }
    ctx.set_extra("exhaustive_spaces", serde_json::json!(["len mod block for block 32 and 192 (k = 0,1,2 full blocks before the final one), both stream-level entry points"]));
    // many small frames: 2- and 3-byte (thorough: 4-byte) frame numbers on the largest / smallest frames
    let mf = many_frames_cases(ctx.tier == crate::core::Tier::Thorough);
    ctx.enumerate_all("many-frames", 16, mf.len() as u64, |i| mf[i as usize].clone(), check);
    let per = ctx.tier.scale(1000, 10);
    let co = CfgOpts { allow_multithread: true, ..Default::default() };
    ctx.search("stream", 16, per, &|| stream_case_strategy(co, InOpts::default(), true), check);
    ctx.search("tiny-final", 16, per, &|| {
        (stream_case_strategy(CfgOpts { allow_multithread: true, max_block: 5000, ..Default::default() }, InOpts { budget: 12_000, ..Default::default() }, true), 1usize..=15, 0usize..=3)
            .prop_map(|(mut c, r, k)| {
                c.inp.len = (k * c.cfg.block_size + r).min(40_000 / c.inp.channels);
                c
            })
    }, check);
}

pub fn replay(path: &str) -> Result<Outcome, String> {
    let (_k, case): (String, StreamCase) = crate::core::load_replay(path)?;
    Ok(check(&case))
}
