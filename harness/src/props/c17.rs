//! C17 Invalid arguments to the encoding API produce errors, not panics.
//!
//! Oracle everywhere: the call returns `Err` -- or, where the library in fact accepts the value,
//! its result represents EXACTLY the value given (accessors / serialised fields equal the
//! arguments, audio and MD5 equal the input). Never a panic, never a hang, never a reinterpreted
//! value. For arguments the property lists as invalid without a faithful reading (over-filled
//! buffers, mismatching byte widths, samples outside the width, frame numbers >= 2^31) `Err` is
//! required.

use super::common::normalise;
use crate::core::{Ctx, Outcome, Tier};
use crate::enc;
use crate::gen::CfgSpec;
use crate::oracle::{md5, refdec};
use crate::util::{catch, fnv, Sm64};
use flacenc::component::{BitRepr, Stream, StreamInfo};
use flacenc::error::SourceError;
use flacenc::source::{Context, Fill, FrameBuf, Source};
use proptest::prelude::*;
use serde::{Deserialize, Serialize};

const P32: usize = 1usize << 32;

pub fn channels_grid() -> Vec<usize> {
    vec![0, 1, 2, 8, 9, 16, 255, 256, 256 + 1, 256 + 2, 256 + 8, 65536 + 2, P32 + 2, P32 * 256 + 1, usize::MAX]
}
pub fn bps_grid() -> Vec<usize> {
    vec![0, 1, 3, 4, 5, 7, 8, 9, 12, 13, 16, 17, 20, 21, 24, 25, 26, 28, 31, 32, 33, 64, 256 + 8, 256 + 16, 65536 + 16, P32 + 16, P32 + 24, usize::MAX]
}
pub fn rate_grid() -> Vec<usize> {
    vec![0, 1, 44100, 96000, 96001, 655350, (1 << 20) - 1, 1 << 20, (1 << 20) + 44100, P32 + 44100, P32, usize::MAX]
}
pub fn block_grid() -> Vec<usize> {
    vec![0, 1, 15, 16, 31, 32, 33, 4096, 32767, 32768, 40000, 65535, 65536, 65536 + 4096, P32 + 4096, usize::MAX]
}
pub fn frame_number_grid() -> Vec<usize> {
    vec![0, 1, (1 << 31) - 1, 1 << 31, (1 << 31) + 1, P32 - 1, P32, P32 + 5, 1 << 36, usize::MAX]
}

fn in_doc_domain(rate: usize, ch: usize, bps: usize) -> bool {
    rate <= 96000 && (1..=8).contains(&ch) && [8usize, 12, 16, 20, 24].contains(&bps)
}

// ------------------------------------------------------------------------------------------
// A. StreamInfo::new / Stream::new
// ------------------------------------------------------------------------------------------

#[derive(Clone, Debug, Serialize, Deserialize)]
pub struct CtorCase {
    pub rate: usize,
    pub channels: usize,
    pub bps: usize,
}

pub fn check_ctor(c: &CtorCase) -> Outcome {
    let mut out = Outcome::new(fnv(format!("{c:?}").as_bytes()));
    let valid = in_doc_domain(c.rate, c.channels, c.bps);
    out.nontrivial = !valid;
    out.class(if valid { "args:documented-domain" } else { "args:outside-domain" });
    match catch(|| StreamInfo::new(c.rate, c.channels, c.bps)) {
        Err(p) => out.viol(format!("StreamInfo::new-{}", normalise(&p.sig())), format!("StreamInfo::new({}, {}, {}) panicked: {} at {}", c.rate, c.channels, c.bps, p.msg, p.loc)),
        Ok(Err(_)) => {
            out.class("StreamInfo::new:err");
            if valid {
                out.viol("StreamInfo::new-rejects-valid", format!("{c:?}"));
            }
        }
        Ok(Ok(info)) => {
            out.class("StreamInfo::new:ok");
            if info.sample_rate() != c.rate || info.channels() != c.channels || info.bits_per_sample() != c.bps {
                out.viol(
                    "StreamInfo::new-reinterprets",
                    format!("StreamInfo::new({}, {}, {}) returned Ok with rate {} channels {} bits {}", c.rate, c.channels, c.bps, info.sample_rate(), info.channels(), info.bits_per_sample()),
                );
            }
        }
    }
    match catch(|| Stream::new(c.rate, c.channels, c.bps)) {
        Err(p) => out.viol(format!("Stream::new-{}", normalise(&p.sig())), format!("Stream::new({}, {}, {}) panicked: {} at {}", c.rate, c.channels, c.bps, p.msg, p.loc)),
        Ok(Err(_)) => {
            if valid {
                out.viol("Stream::new-rejects-valid", format!("{c:?}"));
            }
        }
        Ok(Ok(s)) => {
            // the serialised fields must be the arguments too
            match catch(|| enc::stream_bytes(&s, 1 << 20)) {
                Ok(Ok(b)) => {
                    let tr = refdec::decode(&b[..b.len().min(42)], None);
                    if tr.fatal.is_some() || tr.info.rate as usize != c.rate || tr.info.channels as usize != c.channels || tr.info.bps as usize != c.bps {
                        out.viol(
                            "Stream::new-serialises-other-values",
                            format!("Stream::new({}, {}, {}) is Ok but its STREAMINFO reads rate {} channels {} bits {} ({:?})", c.rate, c.channels, c.bps, tr.info.rate, tr.info.channels, tr.info.bps, tr.fatal),
                        );
                    }
                }
                Ok(Err(e)) => out.viol("Stream::new-unwritable", e),
                Err(p) => out.viol(format!("Stream::new-write-{}", normalise(&p.sig())), p.msg),
            }
        }
    }
    out
}

// ------------------------------------------------------------------------------------------
// B. FrameBuf::with_size
// ------------------------------------------------------------------------------------------

#[derive(Clone, Debug, Serialize, Deserialize)]
pub struct BufCase {
    pub channels: usize,
    pub size: usize,
}

pub fn check_buf(c: &BufCase) -> Outcome {
    let mut out = Outcome::new(fnv(format!("{c:?}").as_bytes()));
    let valid = (1..=8).contains(&c.channels) && (32..=32767).contains(&c.size);
    out.nontrivial = !valid;
    match catch(|| FrameBuf::with_size(c.channels, c.size)) {
        Err(p) => out.viol(format!("FrameBuf::with_size-{}", normalise(&p.sig())), format!("FrameBuf::with_size({}, {}) panicked: {} at {}", c.channels, c.size, p.msg, p.loc)),
        Ok(Err(_)) => {
            out.class("with_size:err");
            if valid {
                out.viol("FrameBuf::with_size-rejects-valid", format!("{c:?}"));
            }
        }
        Ok(Ok(fb)) => {
            out.class("with_size:ok");
            if fb.channels() != c.channels || fb.size() != c.size {
                out.viol("FrameBuf::with_size-reinterprets", format!("with_size({}, {}) gives {} channels of {}", c.channels, c.size, fb.channels(), fb.size()));
            } else if !valid {
                out.viol("FrameBuf::with_size-accepts-invalid", format!("with_size({}, {}) returned Ok although the block size / channel count is outside 32..=32767 / 1..=8", c.channels, c.size));
            }
        }
    }
    out
}

// ------------------------------------------------------------------------------------------
// C. fill operations
// ------------------------------------------------------------------------------------------

#[derive(Clone, Debug, Serialize, Deserialize)]
pub struct FillCase {
    pub channels: usize,
    pub bps: usize,
    pub capacity: usize,
    /// inter-channel samples delivered beyond the capacity (0 = exactly full, control)
    pub extra: usize,
    /// bytes per sample for byte fills (may be invalid: 0, 5, ...)
    pub nbytes: usize,
    /// target: 0 FrameBuf, 1 Context, 2 (FrameBuf, Context) pair
    pub target: u8,
    pub by_bytes: bool,
    pub seed: u64,
    /// the buffer is created with this size and then `resize`d to `capacity` before the fill
    /// (None = created with `capacity` directly)
    #[serde(default)]
    pub initial_size: Option<usize>,
    /// interleaved values delivered beyond a whole number of inter-channel samples (0 <= ragged < channels)
    #[serde(default)]
    pub ragged: usize,
    /// history: 0 none, 1 a valid full integer block accepted first, 2 a valid full byte block accepted first
    #[serde(default)]
    pub prefill: u8,
    /// byte fills: this many trailing bytes (1..nbytes) are cut off, so that the byte string is not a whole number of
    /// samples (the block itself is one sample short of the capacity: not an over-fill)
    #[serde(default)]
    pub cut_bytes: usize,
    /// this many interleaved values (1..channels) are cut off from an under-full block, so that it is not a whole
    /// number of inter-channel samples (no verdict on Ok/Err - only "no panic, now or when the buffer is encoded")
    #[serde(default)]
    pub cut_values: usize,
}

fn rnd_samples(n: usize, bps: usize, seed: u64) -> Vec<i32> {
    let mut r = Sm64::new(seed);
    let b = bps.clamp(1, 32);
    let lo = -(1i64 << (b - 1));
    let hi = (1i64 << (b - 1)) - 1;
    (0..n).map(|_| r.range_i64(lo, hi) as i32).collect()
}

pub fn check_fill(c: &FillCase) -> Outcome {
    let mut out = Outcome::new(fnv(format!("{c:?}").as_bytes()));
    let native = (c.bps + 7) / 8;
    let ragged = if c.channels >= 2 { c.ragged % c.channels } else { 0 };
    let cut_bytes = if c.by_bytes && (2..=4).contains(&c.nbytes) && c.extra == 0 && ragged == 0 { c.cut_bytes % c.nbytes } else { 0 };
    let cut_values = if c.channels >= 2 && c.extra == 0 && ragged == 0 && cut_bytes == 0 { c.cut_values % c.channels } else { 0 };
    let under = (cut_bytes > 0 || cut_values > 0) as usize;
    let n = (c.capacity + c.extra - under.min(c.capacity)) * c.channels + ragged - cut_values.min((c.capacity - under.min(c.capacity)) * c.channels);
    let v = rnd_samples(n, c.bps, c.seed);
    let overfill = c.extra > 0 || ragged > 0;
    let bad_width_for_ctx = c.by_bytes && c.target != 0 && c.nbytes != native;
    let bad_width_any = c.by_bytes && !(1..=4).contains(&c.nbytes);
    // a byte string that is not a whole number of samples cannot be stored faithfully in a buffer
    let ragged_bytes = cut_bytes > 0 && c.target % 3 != 1;
    let invalid = (overfill && c.target != 1) || bad_width_for_ctx || bad_width_any || ragged_bytes;
    if cut_bytes > 0 {
        out.class("arg:byte-string-not-a-whole-number-of-samples");
    }
    if cut_values > 0 {
        out.class("arg:values-not-a-whole-number-of-inter-channel-samples(no verdict on Ok/Err)");
    }
    out.nontrivial = invalid;
    out.class(format!("target:{}", ["FrameBuf", "Context", "(FrameBuf,Context)"][c.target as usize % 3]));
    if overfill {
        out.class("arg:over-fill");
    }
    if ragged > 0 {
        out.class("arg:over-fill-by-less-than-one-inter-channel-sample");
    }
    if c.prefill > 0 {
        out.class("history:valid-block-accepted-first");
    }
    if bad_width_for_ctx {
        out.class("arg:byte-width-disagrees-with-context");
    }
    if bad_width_any {
        out.class("arg:byte-width-outside-1..=4");
    }
    let bytes: Vec<u8> = if c.by_bytes {
        let w = c.nbytes.min(8);
        let mut b = Vec::with_capacity(v.len() * w);
        for x in &v {
            let le = (*x as i64).to_le_bytes();
            b.extend_from_slice(&le[..w]);
        }
        if c.nbytes > 8 {
            // absurd widths: any byte string will do
            b.truncate(64);
        }
        b.truncate(b.len() - cut_bytes.min(b.len()));
        b
    } else {
        vec![]
    };
    let Ok(mut fb) = FrameBuf::with_size(c.channels, c.initial_size.unwrap_or(c.capacity)) else {
        out.class("skipped:buffer-arguments-invalid");
        return out;
    };
    if let Some(s0) = c.initial_size {
        fb.resize(c.capacity);
        out.class(if s0 > c.capacity { "history:resized-smaller" } else { "history:resized-larger" });
    }
    let mut cx = Context::new(c.bps, c.channels);
    let what = format!(
        "{} into {} ({} ch, capacity {}{}, bps {}): {} inter-channel samples{}",
        if c.by_bytes { format!("fill_le_bytes(.., {})", c.nbytes) } else { "fill_interleaved".into() },
        ["FrameBuf", "Context", "(FrameBuf, Context)"][c.target as usize % 3],
        c.channels,
        c.capacity,
        c.initial_size.map_or(String::new(), |s0| format!(" after resize from {s0}")),
        c.bps,
        c.capacity + c.extra,
        if overfill { format!(" (+{ragged} values) = {} samples and {ragged} values more than the buffer holds{}", c.extra, if c.prefill > 0 { ", after one valid full block" } else { "" }) } else { String::new() }
    );
    if c.prefill > 0 {
        // a valid full block first (the context has then seen a block, the buffer has been filled once)
        let v0 = rnd_samples(c.capacity * c.channels, c.bps, c.seed ^ 0x55);
        let b0: Vec<u8> = v0.iter().flat_map(|x| x.to_le_bytes()[..native.min(4)].to_vec()).collect();
        let r0 = catch(|| {
            if c.prefill == 1 {
                (&mut fb, &mut cx).fill_interleaved(&v0)
            } else {
                (&mut fb, &mut cx).fill_le_bytes(&b0, native)
            }
        });
        if !matches!(r0, Ok(Ok(()))) {
            out.viol("fill-rejects-valid", format!("history block before: {what}: {r0:?}"));
            return out;
        }
    }
    let r = catch(|| match (c.target % 3, c.by_bytes) {
        (0, false) => fb.fill_interleaved(&v),
        (0, true) => fb.fill_le_bytes(&bytes, c.nbytes),
        (1, false) => cx.fill_interleaved(&v),
        (1, true) => cx.fill_le_bytes(&bytes, c.nbytes),
        (_, false) => (&mut fb, &mut cx).fill_interleaved(&v),
        (_, true) => (&mut fb, &mut cx).fill_le_bytes(&bytes, c.nbytes),
    });
    match r {
        Err(p) => {
            out.viol(format!("fill-{}", normalise(&p.sig())), format!("{what}: panicked: {} at {}", p.msg, p.loc));
        }
        Ok(Err(_)) => {
            out.class("fill:err");
            if !invalid && cut_values == 0 && cut_bytes == 0 {
                out.viol("fill-rejects-valid", what);
            }
        }
        Ok(Ok(())) if cut_values > 0 || (cut_bytes > 0 && !invalid) => {
            // accepted (the library rounds down): whatever it stored must encode without a panic
            out.class("fill:ok(ragged, rounded)");
            if c.target % 3 != 1 {
                if let (Ok(info), Ok(vc)) = (StreamInfo::new(44100, c.channels, c.bps), enc::verified(&small_cfg(c.capacity))) {
                    if let Err(p) = catch(|| flacenc::encode_fixed_size_frame(&vc, &fb, 0, &info).map(|f| enc::frame_bytes(&f, 1 << 26))) {
                        out.viol(format!("encode-after-ragged-fill-{}", normalise(&p.sig())), format!("{what} (cut {cut_values} values): {}", p.msg));
                    }
                }
            }
        }
        Ok(Ok(())) => {
            out.class("fill:ok");
            if invalid {
                out.viol(
                    format!("fill-accepts-invalid:{}{}", if overfill { "over-fill" } else if ragged_bytes { "ragged-byte-string" } else { "byte-width" }, if c.target % 3 == 1 { ":context" } else { "" }),
                    format!("{what}: returned Ok (filled_size now {})", fb.filled_size()),
                );
            } else if c.target % 3 != 1 {
                // control: the buffer must encode
                let info = StreamInfo::new(44100, c.channels, c.bps);
                if let (Ok(info), Ok(vc)) = (info, enc::verified(&small_cfg(c.capacity))) {
                    match catch(|| flacenc::encode_fixed_size_frame(&vc, &fb, 0, &info)) {
                        Err(p) => out.viol(format!("encode-after-valid-fill-{}", normalise(&p.sig())), p.msg),
                        Ok(Err(e)) => out.viol("encode-after-valid-fill-err", format!("{e:?}")),
                        Ok(Ok(_)) => {}
                    }
                }
            }
        }
    }
    out
}

fn small_cfg(block: usize) -> CfgSpec {
    let mut c = CfgSpec::default();
    c.block_size = block.clamp(32, 32767);
    c
}

// ------------------------------------------------------------------------------------------
// D. stream-level entry point with a grid source
// ------------------------------------------------------------------------------------------

#[derive(Clone, Copy, Debug, PartialEq, Serialize, Deserialize)]
pub enum Misbehave {
    None,
    /// the first read delivers `block_size + extra` inter-channel samples
    OverFill(usize),
    /// byte fills with this many bytes per sample instead of (bps+7)/8
    ByteWidth(usize),
    /// sample at interleaved index `i` of read `k` replaced by a value outside the width (`above`: 2^(bps-1), else -2^(bps-1)-1)
    OutOfRange { read: usize, index: usize, above: bool },
    /// the source fills with packed bytes for reads < `read` and with integers from read `read` on; the
    /// integer block of read `read` carries a sample just above the width
    BytesThenBadInt { read: usize },
    /// byte fills with the right width for reads < `read`, with `width` bytes per sample from read `read` on
    ByteWidthFrom { read: usize, width: usize },
    /// the first read delivers `block_size` inter-channel samples plus `k` further values (0 < k < channels)
    RaggedOverFill(usize),
}

#[derive(Clone, Debug, Serialize, Deserialize)]
pub struct StreamCase17 {
    pub rate: usize,
    pub channels: usize,
    pub bps: usize,
    pub block: usize,
    pub len: usize,
    pub multithread: bool,
    pub by_bytes: bool,
    pub mis: Misbehave,
    pub seed: u64,
    /// the source reports its length through `len_hint`
    #[serde(default)]
    pub hint: bool,
}

pub struct GridSource {
    rate: usize,
    channels: usize,
    bps: usize,
    /// interleaved with stride `stride`
    samples: Vec<i32>,
    stride: usize,
    pos: usize,
    reads: usize,
    by_bytes: bool,
    mis: Misbehave,
    pub delivered: Vec<i32>,
    scratch: Vec<u8>,
    hint: bool,
}

impl Source for GridSource {
    fn len_hint(&self) -> Option<usize> {
        if self.hint {
            Some(self.samples.len() / self.stride.max(1))
        } else {
            None
        }
    }
    fn channels(&self) -> usize {
        self.channels
    }
    fn bits_per_sample(&self) -> usize {
        self.bps
    }
    fn sample_rate(&self) -> usize {
        self.rate
    }
    fn read_samples<F: Fill>(&mut self, block_size: usize, dest: &mut F) -> Result<usize, SourceError> {
        let k = self.reads;
        self.reads += 1;
        let stride = self.stride.max(1);
        let mut want = block_size;
        if let Misbehave::OverFill(e) = self.mis {
            if k == 0 {
                want = block_size.saturating_add(e);
            }
        }
        let avail = (self.samples.len() - self.pos) / stride;
        let n = want.min(avail);
        let mut blk: Vec<i32> = self.samples[self.pos..self.pos + n * stride].to_vec();
        if let Misbehave::OutOfRange { read, index, above } = self.mis {
            if read == k && !blk.is_empty() {
                let i = index % blk.len();
                let b = self.bps.clamp(1, 31);
                blk[i] = if above { 1i32 << (b - 1) } else { (-(1i64 << (b - 1)) - 1) as i32 };
            }
        }
        let mut by_bytes = self.by_bytes;
        if let Misbehave::BytesThenBadInt { read } = self.mis {
            by_bytes = k < read;
            if k == read && !blk.is_empty() {
                let b = self.bps.clamp(1, 31);
                let i = blk.len() / 2;
                blk[i] = 1i32 << (b - 1);
            }
        }
        self.pos += n * stride;
        if let Misbehave::RaggedOverFill(r) = self.mis {
            if k == 0 && n == block_size && stride >= 2 {
                let r = 1 + (r % (stride - 1).max(1)).min(stride - 2);
                let more = self.samples[self.pos..].iter().take(r).copied().collect::<Vec<_>>();
                blk.extend(more);
            }
        }
        if by_bytes {
            let native = (self.bps.clamp(1, 32) + 7) / 8;
            let w = match self.mis {
                Misbehave::ByteWidth(w) => w,
                Misbehave::ByteWidthFrom { read, width } if k >= read => width,
                _ => native,
            };
            self.scratch.clear();
            for x in &blk {
                let le = (*x as i64).to_le_bytes();
                self.scratch.extend_from_slice(&le[..w.clamp(1, 8)]);
            }
            dest.fill_le_bytes(&self.scratch, w)?;
        } else {
            dest.fill_interleaved(&blk)?;
        }
        self.delivered.extend_from_slice(&blk);
        Ok(n)
    }
}

/// Runs `f` on a helper thread; `None` if it does not return within `secs` (the thread is leaked).
fn with_deadline<T: Send + 'static>(secs: u64, f: impl FnOnce() -> T + Send + 'static) -> Option<T> {
    let (tx, rx) = std::sync::mpsc::channel();
    std::thread::spawn(move || {
        let _ = tx.send(f());
    });
    rx.recv_timeout(std::time::Duration::from_secs(secs)).ok()
}

pub fn check_stream(c: &StreamCase17) -> Outcome {
    let mut out = Outcome::new(fnv(format!("{c:?}").as_bytes()));
    let mut c = c.clone();
    if matches!(c.mis, Misbehave::OutOfRange { .. }) && c.by_bytes && c.bps % 8 == 0 {
        // whole-byte widths cannot express a value outside the width: nothing invalid is delivered
        c.mis = Misbehave::None;
        out.class("n/a:byte-delivery-cannot-leave-a-whole-byte-width");
    }
    let c = &c;
    let fmt_valid = in_doc_domain(c.rate, c.channels, c.bps);
    let block_valid = (32..=32767).contains(&c.block);
    let must_err = !matches!(c.mis, Misbehave::None) && fmt_valid && block_valid && {
        match c.mis {
            Misbehave::OverFill(e) => e > 0 && c.len > c.block,
            Misbehave::ByteWidth(w) => c.by_bytes && w != (c.bps + 7) / 8 && c.len > 0,
            Misbehave::OutOfRange { read, .. } => read * c.block < c.len,
            Misbehave::BytesThenBadInt { read } => read * c.block < c.len,
            Misbehave::ByteWidthFrom { read, width } => c.by_bytes && width != (c.bps + 7) / 8 && read * c.block < c.len,
            // needs a full first block and at least one more inter-channel sample to take the surplus from
            Misbehave::RaggedOverFill(_) => c.channels >= 2 && c.len > c.block,
            Misbehave::None => false,
        }
    };
    out.nontrivial = !fmt_valid || !block_valid || must_err;
    out.class(if c.multithread { "mode:multi" } else { "mode:single" });
    out.class(format!("misbehaviour:{}", match c.mis {
        Misbehave::None => "none",
        Misbehave::OverFill(_) => "over-fill",
        Misbehave::ByteWidth(_) => "byte-width",
        Misbehave::OutOfRange { .. } => "sample-outside-width",
        Misbehave::BytesThenBadInt { .. } => "byte-fills-then-integer-fill-with-sample-outside-width",
        Misbehave::ByteWidthFrom { .. } => "byte-width-changes-after-accepted-blocks",
        Misbehave::RaggedOverFill(_) => "over-fill-by-less-than-one-inter-channel-sample",
    }));
    // the source interleaves with its declared channel count where that is feasible
    let stride = if (1..=64).contains(&c.channels) { c.channels } else { 1 };
    let samples = rnd_samples(c.len * stride, c.bps, c.seed);
    let mut cfg = small_cfg(if block_valid { c.block } else { 4096 });
    cfg.multithread = c.multithread;
    cfg.workers = if c.multithread { Some(2) } else { None };
    let Ok(vcfg) = enc::verified(&cfg) else {
        out.viol("generator-unsound", "valid config rejected");
        return out;
    };
    let src = GridSource { rate: c.rate, channels: c.channels, bps: c.bps, samples, stride, pos: 0, reads: 0, by_bytes: c.by_bytes, mis: c.mis, delivered: vec![], scratch: vec![], hint: c.hint };
    let block = c.block;
    let what = format!("encode_with_fixed_block_size(multithread={}, source rate={} channels={} bits={}, block_size={}, {} samples, {:?})", c.multithread, c.rate, c.channels, c.bps, c.block, c.len, c.mis);
    let r = with_deadline(60, move || {
        let mut src = src;
        let r = catch(|| flacenc::encode_with_fixed_block_size(&vcfg, &mut src, block).map_err(|e| format!("{e:?}")));
        (r, src.delivered)
    });
    let Some((r, delivered)) = r else {
        out.inconclusive = Some(format!("{what}: no result within 60 s (possible hang)"));
        return out;
    };
    match r {
        Err(p) => out.viol(format!("stream-{}", normalise(&p.sig())), format!("{what}: panicked: {} at {}", p.msg, p.loc)),
        Ok(Err(_)) => {
            out.class("result:err");
            if fmt_valid && block_valid && matches!(c.mis, Misbehave::None) {
                out.viol("stream-rejects-valid", what);
            }
        }
        Ok(Ok(stream)) => {
            out.class("result:ok");
            if must_err {
                out.viol(format!("stream-accepts-invalid:{}", normalise(&format!("{:?}", c.mis))), format!("{what}: returned Ok"));
                return out;
            }
            if !block_valid {
                out.viol("stream-accepts-invalid:block-size", format!("{what}: returned Ok"));
                return out;
            }
            // faithful?
            let info = stream.stream_info();
            if info.sample_rate() != c.rate || info.channels() != c.channels || info.bits_per_sample() != c.bps {
                out.viol("stream-reinterprets-format", format!("{what}: Ok, but the stream states rate {} channels {} bits {}", info.sample_rate(), info.channels(), info.bits_per_sample()));
                return out;
            }
            let limit = enc::sane_bits(delivered.len() + 4096, c.bps.clamp(1, 32));
            match catch(|| enc::stream_bytes(&stream, limit)) {
                Ok(Ok(b)) => {
                    let tr = refdec::decode(&b, Some(c.block));
                    let md5_ok = tr.info.md5 == md5::pcm_md5(&delivered, c.bps.clamp(1, 32));
                    if tr.fatal.is_some() || tr.info.rate as usize != c.rate || tr.info.channels as usize != c.channels || tr.info.bps as usize != c.bps || tr.samples != delivered || !md5_ok {
                        out.viol(
                            "stream-accepted-but-not-faithful",
                            format!("{what}: Ok, but the emitted stream reads rate {} channels {} bits {}, {} of {} samples, md5 ok {}, fatal {:?}", tr.info.rate, tr.info.channels, tr.info.bps, tr.samples.len(), delivered.len(), md5_ok, tr.fatal),
                        );
                    } else if !fmt_valid {
                        out.class(format!("accepted-faithfully:bits={}", c.bps));
                    }
                }
                Ok(Err(e)) => out.viol("stream-accepted-but-unwritable", format!("{what}: {e}")),
                Err(p) => out.viol(format!("stream-write-{}", normalise(&p.sig())), format!("{what}: {}", p.msg)),
            }
        }
    }
    out
}

// ------------------------------------------------------------------------------------------
// E. frame-level entry point
// ------------------------------------------------------------------------------------------

#[derive(Clone, Debug, Serialize, Deserialize)]
pub struct FrameCase17 {
    pub channels: usize,
    pub bps: usize,
    pub block: usize,
    pub frame_number: usize,
    /// out-of-range sample: (interleaved index, above?, distance beyond the limit: 0 => first illegal value, 1 => i32 extreme)
    pub bad_sample: Option<(usize, bool, u8)>,
    pub seed: u64,
    /// inter-channel samples delivered to the buffer: None = a full block, Some(0) = an empty fill,
    /// Some(usize::MAX) = the buffer is never filled, Some(k) = a short (valid) block of k samples
    #[serde(default)]
    pub fill: Option<usize>,
    /// history: the buffer first receives a valid block through `fill_le_bytes` (native width)
    #[serde(default)]
    pub prefill_bytes: bool,
    /// channel count of the `StreamInfo` handed to the encoder when it differs from the buffer's
    #[serde(default)]
    pub info_channels: Option<usize>,
    /// `FrameBuf::resize(k)` called on the buffer: (before the fill?, k). Sizes outside 32..=32767 and sizes below the
    /// filled length make the buffer an argument outside the supported domain (resize itself cannot report an error)
    #[serde(default)]
    pub resize: Option<(bool, usize)>,
}

pub fn check_frame(c: &FrameCase17) -> Outcome {
    let mut out = Outcome::new(fnv(format!("{c:?}").as_bytes()));
    let num_valid = c.frame_number < (1usize << 31);
    let delivered = match (c.fill, c.resize) {
        (None, _) => c.block,
        (Some(usize::MAX), _) => 0,
        (Some(k), Some((true, size))) => k.min(size.max(c.block)),
        (Some(k), _) => k.min(c.block),
    };
    let empty = delivered == 0;
    let mismatch = c.info_channels.map_or(false, |k| k != c.channels);
    let must_err = !num_valid || c.bad_sample.is_some() || empty || mismatch;
    if mismatch {
        out.class(if c.info_channels.unwrap() > c.channels { "arg:stream-info-declares-more-channels-than-the-buffer-has" } else { "arg:stream-info-declares-fewer-channels-than-the-buffer-has" });
    }
    out.nontrivial = must_err;
    if empty {
        out.class("arg:empty-frame-buffer");
    }
    if !num_valid {
        out.class("arg:frame-number>=2^31");
    }
    if c.bad_sample.is_some() {
        out.class("arg:sample-outside-width");
    }
    let (Ok(mut fb), Ok(info), Ok(vc)) = (FrameBuf::with_size(c.channels, c.block), StreamInfo::new(44100, c.info_channels.unwrap_or(c.channels), c.bps), enc::verified(&small_cfg(c.block))) else {
        out.class("skipped:setup-arguments-invalid");
        return out;
    };
    let mut v = rnd_samples(delivered * c.channels, c.bps, c.seed);
    if let (Some((i, above, far)), false) = (c.bad_sample, empty) {
        let i = i % v.len();
        v[i] = match (above, far) {
            (true, 0) => 1i32 << (c.bps - 1),
            (true, _) => i32::MAX,
            (false, 0) => (-(1i64 << (c.bps - 1)) - 1) as i32,
            (false, _) => i32::MIN,
        };
    }
    if c.prefill_bytes {
        let nb = (c.bps + 7) / 8;
        let good = rnd_samples(c.block * c.channels, c.bps, c.seed ^ 0x55);
        let mut bytes = Vec::with_capacity(good.len() * nb);
        for x in &good {
            bytes.extend_from_slice(&x.to_le_bytes()[..nb]);
        }
        if fb.fill_le_bytes(&bytes, nb).is_err() {
            out.viol("fill-rejects-valid", "fill_le_bytes of exactly the capacity failed");
            return out;
        }
        out.class("history:byte-fill-before-the-judged-fill");
    }
    if let Some((before, k)) = c.resize {
        out.class(format!("history:resize-{}-the-fill:{}", if before { "before" } else { "after" }, if k == 0 { "0" } else if k < 32 { "1..31" } else if k <= 32767 { "valid-size" } else { ">32767" }));
        return check_frame_resized(c, fb, &info, &vc, &v, before, k, out);
    }
    if c.fill != Some(usize::MAX) && fb.fill_interleaved(&v).is_err() {
        out.viol("fill-rejects-valid", "fill_interleaved of at most the capacity failed");
        return out;
    }
    let what = format!("encode_fixed_size_frame({} ch, {} bits, block {}, delivered {:?}, frame_number {}, bad sample {:?})", c.channels, c.bps, c.block, c.fill, c.frame_number, c.bad_sample);
    match catch(|| flacenc::encode_fixed_size_frame(&vc, &fb, c.frame_number, &info)) {
        Err(p) => out.viol(format!("frame-{}", normalise(&p.sig())), format!("{what}: panicked: {} at {}", p.msg, p.loc)),
        Ok(Err(_)) => {
            out.class("result:err");
            if !must_err {
                out.viol("frame-rejects-valid", what);
            }
        }
        Ok(Ok(f)) => {
            out.class("result:ok");
            if must_err {
                out.viol(if mismatch { "frame-accepts-invalid:channel-count-of-buffer-and-stream-info-differ" } else if empty { "frame-accepts-invalid:empty-frame-buffer" } else if num_valid { "frame-accepts-invalid:sample" } else { "frame-accepts-invalid:frame-number" }, format!("{what}: returned Ok"));
            } else {
                // faithful: the header carries exactly this number
                let fctx = refdec::FrameCtx { rate: Some(44100), bps: Some(c.bps as u32), channels: Some(c.channels), max_block: None };
                match catch(|| enc::frame_bytes(&f, 1 << 26)) {
                    Ok(Ok(b)) => {
                        let mut viol = vec![];
                        match refdec::decode_frame(&b, 0, &fctx, c.frame_number as u64, &mut viol) {
                            Ok((ft, _, _)) if ft.number == c.frame_number as u64 && ft.block_size == delivered => {}
                            other => out.viol("frame-number-not-faithful", format!("{what}: header reads {:?}", other.map(|x| x.0.number))),
                        }
                    }
                    Ok(Err(e)) => out.viol("frame-unwritable", e),
                    Err(p) => out.viol(format!("frame-write-{}", normalise(&p.sig())), p.msg),
                }
            }
        }
    }
    out
}

/// A buffer that has been resized (before or after its fill). Oracle: nothing panics; the fill returns Err or Ok; the
/// encode returns Err, or a frame that is well formed and faithful (decodes, announces exactly as many samples as
/// each subframe holds, and - when the fill came after the resize and fitted - holds the delivered samples).
#[allow(clippy::too_many_arguments)]
fn check_frame_resized(c: &FrameCase17, mut fb: FrameBuf, info: &StreamInfo, vc: &flacenc::error::Verified<flacenc::config::Encoder>, v: &[i32], before: bool, k: usize, mut out: Outcome) -> Outcome {
    out.nontrivial = true;
    let what = format!("FrameBuf({} ch, {}) {} resize({k}), {} values", c.channels, c.block, if before { "after" } else { "before" }, v.len());
    let fill = |fb: &mut FrameBuf| catch(|| fb.fill_interleaved(v).is_ok());
    let filled = if before {
        if let Err(p) = catch(|| fb.resize(k)) {
            out.class(format!("resize-panics:{}", normalise(&p.sig())));
            return out;
        }
        match fill(&mut fb) {
            Err(p) => {
                out.viol(format!("fill-{}", normalise(&p.sig())), format!("{what}: fill panicked: {} at {}", p.msg, p.loc));
                return out;
            }
            Ok(ok) => ok,
        }
    } else {
        let ok = match fill(&mut fb) {
            Err(p) => {
                out.viol(format!("fill-{}", normalise(&p.sig())), format!("{what}: fill panicked: {} at {}", p.msg, p.loc));
                return out;
            }
            Ok(ok) => ok,
        };
        if let Err(p) = catch(|| fb.resize(k)) {
            out.class(format!("resize-panics:{}", normalise(&p.sig())));
            return out;
        }
        ok
    };
    out.class(if filled { "fill:ok" } else { "fill:err" });
    match catch(|| flacenc::encode_fixed_size_frame(vc, &fb, c.frame_number & 0xFFFF, info)) {
        Err(p) => out.viol(format!("frame-{}", normalise(&p.sig())), format!("{what}: encode_fixed_size_frame panicked: {} at {}", p.msg, p.loc)),
        Ok(Err(_)) => out.class("result:err"),
        Ok(Ok(f)) => {
            out.class("result:ok");
            let fctx = refdec::FrameCtx { rate: Some(44100), bps: Some(c.bps as u32), channels: Some(c.channels), max_block: None };
            match catch(|| enc::frame_bytes(&f, 1 << 26)) {
                Ok(Ok(b)) => {
                    let mut viol = vec![];
                    match refdec::decode_frame(&b, 0, &fctx, (c.frame_number & 0xFFFF) as u64, &mut viol) {
                        Ok((ft, chans, end)) => {
                            let n = v.len() / c.channels;
                            let faithful = !before || !filled || (ft.block_size == n && (0..n).all(|t| (0..c.channels).all(|ch| chans[ch][t] == v[t * c.channels + ch] as i64)));
                            if end != b.len() || !faithful || ft.block_size > 32767 {
                                out.viol("frame-from-resized-buffer-not-faithful", format!("{what}: the frame announces {} samples, the fill delivered {n}", ft.block_size));
                            }
                        }
                        Err(e) => out.viol("frame-from-resized-buffer-malformed", format!("{what}: encode returned Ok but the frame does not decode: {e}")),
                    }
                }
                Ok(Err(e)) => out.viol("frame-unwritable", e),
                Err(p) => out.viol(format!("frame-write-{}", normalise(&p.sig())), p.msg),
            }
        }
    }
    out
}

// ------------------------------------------------------------------------------------------

/// `Context` made for a channel count outside 1..=8 (the constructor cannot report an error): fills must not panic.
#[derive(Clone, Debug, Serialize, Deserialize)]
pub struct CtxCase {
    pub channels: usize,
    pub bps: usize,
    pub values: usize,
    pub by_bytes: bool,
}

pub fn check_ctx(c: &CtxCase) -> Outcome {
    let mut out = Outcome::new(fnv(format!("{c:?}").as_bytes()));
    out.nontrivial = c.channels == 0 || c.channels > 8;
    let v = rnd_samples(c.values, c.bps, 5);
    let nb = (c.bps + 7) / 8;
    let bytes: Vec<u8> = v.iter().flat_map(|x| x.to_le_bytes()[..nb].to_vec()).collect();
    let r = catch(|| {
        let mut cx = Context::new(c.bps, c.channels);
        let r = if c.by_bytes { cx.fill_le_bytes(&bytes, nb).is_ok() } else { cx.fill_interleaved(&v).is_ok() };
        let _ = (cx.total_samples(), cx.md5_digest(), cx.current_frame_number());
        r
    });
    match r {
        Err(p) => out.viol(format!("context-fill-{}", normalise(&p.sig())), format!("Context::new({}, {}) then a fill of {} values: panicked: {} at {}", c.bps, c.channels, c.values, p.msg, p.loc)),
        Ok(ok) => out.class(format!("context:channels={}:{}", if c.channels == 0 { "0".to_string() } else if c.channels > 8 { ">8".to_string() } else { "valid".to_string() }, if ok { "ok" } else { "err" })),
    }
    out
}

#[derive(Clone, Debug, Serialize, Deserialize)]
pub enum Case17 {
    Ctor(CtorCase),
    Buf(BufCase),
    Fill(FillCase),
    Stream(StreamCase17),
    Frame(FrameCase17),
    Ctx(CtxCase),
}

pub fn check(c: &Case17) -> Outcome {
    match c {
        Case17::Ctor(x) => check_ctor(x),
        Case17::Buf(x) => check_buf(x),
        Case17::Fill(x) => check_fill(x),
        Case17::Stream(x) => check_stream(x),
        Case17::Frame(x) => check_frame(x),
        Case17::Ctx(x) => check_ctx(x),
    }
}

fn stream_grid(thorough: bool) -> Vec<Case17> {
    let mut v = vec![];
    let base = StreamCase17 { rate: 44100, channels: 2, bps: 16, block: 64, len: 200, multithread: false, by_bytes: false, mis: Misbehave::None, seed: 7, hint: false };
    for mt in [false, true] {
        for by_bytes in [false, true] {
            let b = StreamCase17 { multithread: mt, by_bytes, ..base.clone() };
            for x in channels_grid() {
                v.push(Case17::Stream(StreamCase17 { channels: x, ..b.clone() }));
            }
            for x in bps_grid() {
                v.push(Case17::Stream(StreamCase17 { bps: x, ..b.clone() }));
                v.push(Case17::Stream(StreamCase17 { bps: x, channels: 1, ..b.clone() }));
            }
            for x in rate_grid() {
                v.push(Case17::Stream(StreamCase17 { rate: x, ..b.clone() }));
            }
            for x in block_grid() {
                for hint in [false, true] {
                    v.push(Case17::Stream(StreamCase17 { block: x, len: 100, hint, ..b.clone() }));
                    v.push(Case17::Stream(StreamCase17 { block: x, len: 0, hint, ..b.clone() }));
                }
            }
            for read in 1..4usize {
                for bps in [8usize, 12, 16, 24] {
                    v.push(Case17::Stream(StreamCase17 { mis: Misbehave::BytesThenBadInt { read }, bps, len: 400, ..b.clone() }));
                }
            }
            for e in [1usize, 2, 64, 1000] {
                v.push(Case17::Stream(StreamCase17 { mis: Misbehave::OverFill(e), len: 3000, ..b.clone() }));
            }
            for read in 1..4usize {
                for (bps, width) in [(16usize, 1usize), (16, 3), (16, 4), (24, 2), (24, 4), (8, 2), (12, 1), (20, 2), (20, 4)] {
                    v.push(Case17::Stream(StreamCase17 { mis: Misbehave::ByteWidthFrom { read, width }, by_bytes: true, bps, len: 400, ..b.clone() }));
                }
            }
            for ch in [2usize, 3, 8] {
                for k in 0..ch - 1 {
                    v.push(Case17::Stream(StreamCase17 { mis: Misbehave::RaggedOverFill(k), channels: ch, len: 300, ..b.clone() }));
                }
            }
            for w in [0usize, 1, 3, 4, 5, 8] {
                v.push(Case17::Stream(StreamCase17 { mis: Misbehave::ByteWidth(w), by_bytes: true, ..b.clone() }));
                v.push(Case17::Stream(StreamCase17 { mis: Misbehave::ByteWidth(w), by_bytes: true, bps: 24, ..b.clone() }));
            }
            for read in 0..4usize {
                for above in [false, true] {
                    v.push(Case17::Stream(StreamCase17 { mis: Misbehave::OutOfRange { read, index: 5 + read, above }, ..b.clone() }));
                }
            }
            if thorough {
                // pairs of format arguments
                for ch in channels_grid() {
                    for bps in bps_grid() {
                        v.push(Case17::Stream(StreamCase17 { channels: ch, bps, ..b.clone() }));
                    }
                }
                for bl in block_grid() {
                    for ch in channels_grid() {
                        v.push(Case17::Stream(StreamCase17 { channels: ch, block: bl, len: 100, ..b.clone() }));
                    }
                }
            }
        }
    }
    v
}

fn fill_grid() -> Vec<Case17> {
    let mut v = vec![];
    for target in 0..3u8 {
        for by_bytes in [false, true] {
            for channels in [1usize, 2, 3, 8] {
                for (bps, cap) in [(16usize, 64usize), (24, 33), (8, 32)] {
                    let native = (bps + 7) / 8;
                    for extra in [0usize, 1, 2, 31, 64, 1000] {
                        v.push(Case17::Fill(FillCase { channels, bps, capacity: cap, extra, nbytes: native, target, by_bytes, seed: 3, initial_size: None, ragged: 0, prefill: 0, cut_bytes: 0, cut_values: 0 }));
                    }
                    // over-fills by less than one inter-channel sample
                    for ragged in 1..channels {
                        for extra in [0usize, 1] {
                            for prefill in [0u8, 1] {
                                v.push(Case17::Fill(FillCase { channels, bps, capacity: cap, extra, nbytes: native, target, by_bytes, seed: 6, initial_size: None, ragged, prefill, cut_bytes: 0, cut_values: 0 }));
                            }
                        }
                    }
                    if by_bytes {
                        for nbytes in [0usize, 1, 2, 3, 4, 5, 8, 9, 255, P32 + 2, usize::MAX] {
                            for prefill in [0u8, 1, 2] {
                                v.push(Case17::Fill(FillCase { channels, bps, capacity: cap, extra: 0, nbytes, target, by_bytes, seed: 4, initial_size: None, ragged: 0, prefill, cut_bytes: 0, cut_values: 0 }));
                            }
                        }
                    }
                }
            }
        }
    }
    // histories: created with one size, resized (smaller and larger), then filled
    for target in [0u8, 2] {
        for by_bytes in [false, true] {
            for channels in [1usize, 2, 3] {
                for (s0, cap) in [(4096usize, 1024usize), (1024, 4096), (100, 150), (150, 100), (64, 32), (32, 33)] {
                    for extra in [0usize, 1, 2, 50, 1000, 3072] {
                        v.push(Case17::Fill(FillCase { channels, bps: 16, capacity: cap, extra, nbytes: 2, target, by_bytes, seed: 5, initial_size: Some(s0), ragged: 0, prefill: 0, cut_bytes: 0, cut_values: 0 }));
                    }
                }
            }
        }
    }
    v
}

/// Byte strings / value lists that are not a whole number of (inter-channel) samples, below the capacity.
fn ragged_fill_grid() -> Vec<Case17> {
    let mut v = vec![];
    for channels in [1usize, 2, 3, 8] {
        for bps in [8usize, 12, 16, 20, 24] {
            let native = (bps + 7) / 8;
            for nbytes in [native, 4] {
                for cut_bytes in 1..nbytes {
                    for target in 0..3u8 {
                        for prefill in 0..3u8 {
                            for cap in [32usize, 64] {
                                v.push(Case17::Fill(FillCase { channels, bps, capacity: cap, extra: 0, nbytes, target, by_bytes: true, seed: 8, initial_size: None, ragged: 0, prefill, cut_bytes, cut_values: 0 }));
                            }
                        }
                    }
                }
            }
            for cut_values in 1..channels {
                for target in 0..3u8 {
                    for by_bytes in [false, true] {
                        v.push(Case17::Fill(FillCase { channels, bps, capacity: 40, extra: 0, nbytes: native, target, by_bytes, seed: 9, initial_size: None, ragged: 0, prefill: (cut_values % 3) as u8, cut_bytes: 0, cut_values }));
                    }
                }
            }
        }
    }
    v
}

fn frame_grid() -> Vec<Case17> {
    let mut v = vec![];
    // resized buffers: sizes outside 32..=32767, sizes below what has been filled, before and after the fill
    for (ch, bps) in [(1usize, 16usize), (2, 8), (3, 24)] {
        for k in [0usize, 1, 16, 31, 32, 33, 40, 63, 64, 65, 100, 1024, 32767, 32768, 40000, 65535, 65536, 65600] {
            for before in [false, true] {
                for fill in [None, Some(17usize), Some(0usize), Some(usize::MAX - 1)] {
                    // Some(usize::MAX - 1): as many samples as the *resized* buffer holds (only meaningful before the fill)
                    let (block, fill) = match fill {
                        Some(x) if x == usize::MAX - 1 => {
                            if !before || k == 0 || k > 70000 {
                                continue;
                            }
                            (64usize, Some(k))
                        }
                        f => (64usize, f),
                    };
                    v.push(Case17::Frame(FrameCase17 { channels: ch, bps, block, frame_number: 1, bad_sample: None, seed: 21, fill, prefill_bytes: false, info_channels: None, resize: Some((before, k)) }));
                }
            }
        }
    }
    // the buffer and the stream description disagree on the number of channels
    for fbch in 1usize..=8 {
        for sich in 1usize..=8 {
            if fbch != sich {
                for bps in [8usize, 16, 24] {
                    v.push(Case17::Frame(FrameCase17 { channels: fbch, bps, block: 64, frame_number: 2, bad_sample: None, seed: 11, fill: if (fbch + sich) % 2 == 0 { None } else { Some(17) }, prefill_bytes: sich % 3 == 0, info_channels: Some(sich), resize: None }));
                }
            }
        }
    }
    for n in frame_number_grid() {
        for (ch, bps) in [(1usize, 16usize), (2, 24), (8, 8)] {
            v.push(Case17::Frame(FrameCase17 { channels: ch, bps, block: 64, frame_number: n, bad_sample: None, seed: 1, fill: None, prefill_bytes: false, info_channels: None, resize: None }));
        }
    }
    // delivered sample counts: empty fill, never filled, short valid blocks, full
    for (ch, bps) in [(1usize, 16usize), (2, 24), (8, 8)] {
        for fill in [Some(0usize), Some(usize::MAX), Some(1), Some(2), Some(15), Some(16), Some(63), None] {
            for block in [32usize, 64, 4096] {
                v.push(Case17::Frame(FrameCase17 { channels: ch, bps, block, frame_number: 7, bad_sample: None, seed: 3, fill, prefill_bytes: false, info_channels: None, resize: None }));
            }
        }
    }
    for bps in [8usize, 12, 16, 20, 24] {
        for ch in [1usize, 2, 5] {
            for i in [0usize, 1, 63, 64 * ch - 1, 17] {
                for above in [false, true] {
                    for far in [0u8, 1] {
                        v.push(Case17::Frame(FrameCase17 { channels: ch, bps, block: 64, frame_number: 3, bad_sample: Some((i, above, far)), seed: 2, fill: None, prefill_bytes: false, info_channels: None, resize: None }));
                        v.push(Case17::Frame(FrameCase17 { channels: ch, bps, block: 64, frame_number: 3, bad_sample: Some((i, above, far)), seed: 2, fill: None, prefill_bytes: true, info_channels: None, resize: None }));
                    }
                }
            }
        }
    }
    v
}

pub fn run(ctx: &Ctx) {
    ctx.rule(
        "complete grids, one argument at a time with the others valid (thorough: also pairs): \
         StreamInfo::new / Stream::new over the FULL product of rate x channels x bits grids {0, min-1, min, max, max+1, 2^8+k, 2^16+k, 2^32+k, usize::MAX}; FrameBuf::with_size over the full product channels x size; \
         fills of FrameBuf / Context / (FrameBuf, Context) with capacity+extra samples (extra in {0,1,2,31,64,1000}; also capacity + 1..channels-1 surplus VALUES, i.e. less than one inter-channel sample too many) as integers and bytes, byte widths {0..5, 8, 9, 255, 2^32+2, usize::MAX}, each also after a valid block has been accepted (history); byte strings that are not a whole number of samples (1..width-1 bytes cut off an under-full block: Err required for buffers) and value lists that are not a whole number of inter-channel samples (no verdict on Ok/Err; what was stored must encode without panic); \
         encode_with_fixed_block_size in single- and multi-thread mode (60 s deadline per call) from a source that declares grid values for rate / channels / bits, with grid block sizes, over-long reads (by whole samples and by 1..channels-1 values), wrong byte widths from the first read or only from read 1..3 on, and samples outside the width at read 0..3; \
         fills of a Context made for 0 / 9 / 255 / 256 / usize::MAX channels (no panic); frame buffers resized to {0, 1, 16, 31, ..., 32768, 40000, 65600} before or after their fill, then filled and encoded (no panic; Err, or a well-formed frame that announces what it holds and holds what was delivered); encode_fixed_size_frame with every pair of differing (buffer channels, StreamInfo channels) in 1..=8 (Err required), over the frame-number grid and with one sample just outside / far outside the width at several positions; plus proptest-generated positions, widths and over-fill amounts; \
         oracle: Err, or a result that states exactly the given values (accessors, serialised STREAMINFO, decoded audio, MD5, frame number); never a panic / hang / reinterpreted value; Err is REQUIRED for over-fills, disagreeing byte widths, samples outside the width, frame numbers >= 2^31 and block sizes outside 32..=32767; \
         non-trivial = grid point with an argument outside the documented domain; distinct by value",
    );
    ctx.assume("widths 4n / 4n+1 in 4..=25 other than 8/12/16/20/24 are accepted by the library's own verification (side-channel allowance); for those the 'faithful' branch of the oracle applies");
    ctx.assume("a multi-thread call that does not return within 60 s is reported as inconclusive, never as a violation");
    let thorough = ctx.tier == Tier::Thorough;
    // A
    let (rg, cg, bg) = (rate_grid(), channels_grid(), bps_grid());
    let n = (rg.len() * cg.len() * bg.len()) as u64;
    ctx.enumerate_all("ctor", 16, n, |i| {
        let i = i as usize;
        Case17::Ctor(CtorCase { rate: rg[i % rg.len()], channels: cg[(i / rg.len()) % cg.len()], bps: bg[i / (rg.len() * cg.len())] })
    }, check);
    // B
    let sg = block_grid();
    ctx.enumerate_all("framebuf", 8, (cg.len() * sg.len()) as u64, |i| Case17::Buf(BufCase { channels: cg[i as usize % cg.len()], size: sg[i as usize / cg.len()] }), check);
    // C
    let fg = fill_grid();
    ctx.enumerate_all("fill", 16, fg.len() as u64, |i| fg[i as usize].clone(), check);
    let rfg = ragged_fill_grid();
    ctx.enumerate_all("fill-ragged", 16, rfg.len() as u64, |i| rfg[i as usize].clone(), check);
    // E
    let cxg: Vec<Case17> = [0usize, 9, 255, 256, usize::MAX].iter().flat_map(|&ch| [8usize, 16, 24].into_iter().flat_map(move |bps| [0usize, 1, 7, 64].into_iter().flat_map(move |values| [false, true].into_iter().map(move |by_bytes| Case17::Ctx(CtxCase { channels: ch, bps, values, by_bytes })))).collect::<Vec<_>>()).collect();
    ctx.enumerate_all("context-channels", 8, cxg.len() as u64, |i| cxg[i as usize].clone(), check);
    let frg = frame_grid();
    ctx.enumerate_all("frame", 16, frg.len() as u64, |i| frg[i as usize].clone(), check);
    // D
    let stg = stream_grid(thorough);
    ctx.enumerate_all("stream", 16, stg.len() as u64, |i| stg[i as usize].clone(), check);
    ctx.exhaustive.store(true, std::sync::atomic::Ordering::Relaxed);
    // generated
    let per = ctx.tier.scale(1500, 8);
    ctx.search("gen-fill", 16, per * 4, &|| {
        (1usize..=8, proptest::sample::select(vec![8usize, 12, 16, 20, 24]), 32usize..=300, prop_oneof![2 => Just(0usize), 3 => 1usize..=5, 2 => 1usize..=400], 0usize..=6, 0u8..3, any::<bool>(), any::<u64>())
            .prop_map(|(channels, bps, capacity, extra, nb, target, by_bytes, seed)| {
                let native = (bps + 7) / 8;
                let nbytes = if nb == 6 { native } else { nb };
                Case17::Fill(FillCase { channels, bps, capacity, extra, nbytes, target, by_bytes, seed, initial_size: if seed % 3 == 0 { Some(32 + (seed / 3 % 600) as usize) } else { None }, ragged: if seed % 5 < 2 { (seed / 5 % 8) as usize } else { 0 }, prefill: (seed / 7 % 3) as u8, cut_bytes: if seed % 11 < 3 { 1 + (seed / 11 % 3) as usize } else { 0 }, cut_values: if seed % 13 < 3 { 1 + (seed / 13 % 7) as usize } else { 0 } })
            })
    }, check);
    ctx.search("gen-frame", 16, per * 2, &|| {
        (1usize..=8, proptest::sample::select(vec![8usize, 12, 16, 20, 24]), 32usize..=500, prop_oneof![3 => 0usize..(1 << 31), 1 => (1usize << 31)..usize::MAX], proptest::option::weighted(0.6, (any::<usize>(), any::<bool>(), 0u8..2)), any::<u64>())
            .prop_map(|(channels, bps, block, frame_number, bad_sample, seed)| Case17::Frame(FrameCase17 { channels, bps, block, frame_number, bad_sample, seed, fill: None, prefill_bytes: seed % 3 == 0, info_channels: if seed % 7 == 0 { Some(1 + (seed / 7 % 8) as usize) } else { None }, resize: if seed % 5 == 0 { Some((seed % 2 == 0, [0usize, 1, 16, 31, 32, 40, 100, 32767, 32768, 40000, 65600][(seed / 5 % 11) as usize])) } else { None } }))
    }, check);
    ctx.search("gen-stream", 8, per, &|| {
        let mis = prop_oneof![
            1 => Just(Misbehave::None),
            2 => (1usize..=300).prop_map(Misbehave::OverFill),
            2 => (0usize..=5).prop_map(Misbehave::ByteWidth),
            3 => (0usize..6, any::<usize>(), any::<bool>()).prop_map(|(read, index, above)| Misbehave::OutOfRange { read, index, above }),
            2 => (1usize..6).prop_map(|read| Misbehave::BytesThenBadInt { read }),
            2 => (1usize..6, 0usize..=5).prop_map(|(read, width)| Misbehave::ByteWidthFrom { read, width }),
            1 => (0usize..7).prop_map(Misbehave::RaggedOverFill),
        ];
        (1usize..=8, proptest::sample::select(vec![8usize, 12, 16, 20, 24]), 32usize..=200, 0usize..=900, any::<bool>(), any::<bool>(), mis, any::<u64>())
            .prop_map(|(channels, bps, block, len, multithread, by_bytes, mis, seed)| Case17::Stream(StreamCase17 { rate: 48000, channels, bps, block, len, multithread, by_bytes, mis, seed, hint: seed % 2 == 0 }))
    }, check);
}

pub fn replay(path: &str) -> Result<Outcome, String> {
    let (_k, case): (String, Case17) = crate::core::load_replay(path)?;
    Ok(check(&case))
}
