//! Par-mode checks under the schedule-owning scheduler: C05, C06 and the scheduled part of C03.
//! Every case is evaluated in an executor child process (`vh exec-sched`), because a dead-locked
//! encoder cannot be cleaned up in-process.

use crate::core::{Ctx, Outcome, Tier};
use crate::enc::{self, Fault, SrcKind, TestSource};
use crate::gen::{self, CfgOpts, CfgSpec, InOpts, InputSpec};
use crate::oracle::{md5, refdec};
use crate::sched::{self, Abort, Sched, Strategy as SchedStrategy};
use crate::util::{catch, fnv, hex, ALL_PANICS};
use flacenc::component::BitRepr;
use flacenc::error::EncodeError;
use proptest::prelude::*;
use serde::{Deserialize, Serialize};
use std::io::{BufRead, BufReader, Write};
use std::process::{Child, ChildStdin, Command, Stdio};
use std::sync::mpsc::{channel, Receiver};
use std::sync::Mutex;
use std::time::Duration;

#[derive(Clone, Debug, PartialEq, Serialize, Deserialize)]
pub struct SchedCase {
    /// "c05" | "c06" | "c03"
    pub purpose: String,
    pub cfg: CfgSpec,
    pub inp: InputSpec,
    pub src: SrcKind,
    pub fill_empty_at_end: bool,
    pub faults: Vec<Fault>,
    /// value of FLACENC_WORKERS (None = unset)
    pub env: Option<String>,
    /// 0 = uniform random walk, 1 = PCT, 2 / 3 / 4 = starve the hashing thread / the feeder / the workers
    pub strategy: u8,
    pub pct_depth: usize,
    pub choices: Vec<u8>,
    pub sched_seed: u64,
    /// second schedule for the repeat run (C05)
    pub sched_seed2: u64,
    /// packet size of the source (0 = full blocks; see `TestSource::packet`)
    #[serde(default)]
    pub packet: usize,
    /// the source reports its true length through `len_hint`
    #[serde(default)]
    pub len_hint: bool,
}

impl SchedCase {
    pub fn fp(&self) -> u64 {
        fnv(serde_json::to_string(self).unwrap_or_default().as_bytes())
    }
}

#[derive(Clone, Debug, Default, Serialize, Deserialize)]
pub struct ExecResult {
    pub classes: Vec<String>,
    pub nontrivial: bool,
    pub viols: Vec<(String, String)>,
    pub inconclusive: Option<String>,
    pub exit_after: bool,
}

fn kind_of(r: &Result<Vec<u8>, EncodeError>) -> String {
    match r {
        Ok(_) => "ok".into(),
        Err(EncodeError::Source(_)) => "err-source".into(),
        Err(EncodeError::Config(_)) => "err-config".into(),
        #[allow(unreachable_patterns)]
        Err(_) => "err-other".into(),
    }
}

fn to_bytes(s: &flacenc::component::Stream, limit: usize) -> Vec<u8> {
    enc::stream_bytes(s, limit).unwrap_or_else(|e| e.into_bytes())
}

struct RunOut {
    /// "ok" | "err-source" | "err-config" | "panic"
    kind: String,
    bytes: Option<Vec<u8>>,
    panic: Option<String>,
    /// number of `read_samples` calls the source received
    reads: usize,
}

fn run_encode(case: &SchedCase, samples: &[i32], multithread: bool) -> RunOut {
    let mut cfg = case.cfg.clone();
    cfg.multithread = multithread;
    let Ok(vcfg) = enc::verified(&cfg) else {
        return RunOut { kind: "config-rejected".into(), bytes: None, panic: None, reads: 0 };
    };
    let limit = enc::sane_bits(samples.len(), case.inp.bps);
    let reads = std::sync::atomic::AtomicUsize::new(0);
    let r = catch(|| {
        let mut src = TestSource::new(samples, case.inp.channels, case.inp.bps, case.inp.rate, if case.src == SrcKind::Mem { SrcKind::Int } else { case.src }).with_faults(case.faults.clone());
        src.fill_empty_at_end = case.fill_empty_at_end;
        src.packet = case.packet;
        src.hint = case.len_hint;
        let r = flacenc::encode_with_fixed_block_size(&vcfg, &mut src, cfg.block_size).map(|s| to_bytes(&s, limit));
        reads.store(src.reads, std::sync::atomic::Ordering::Relaxed);
        r
    });
    let reads = reads.load(std::sync::atomic::Ordering::Relaxed);
    match r {
        Ok(r) => RunOut { kind: kind_of(&r), bytes: r.ok(), panic: None, reads },
        Err(p) => RunOut { kind: "panic".into(), bytes: None, panic: Some(format!("{} at {}", p.msg, p.loc)), reads },
    }
}

struct Scheduled {
    out: RunOut,
    leaked: Vec<String>,
    helper_panics: Vec<String>,
    steps: usize,
    pushes: Vec<usize>,
    ooo: usize,
    worker_pop_while_feeder_blocked: bool,
    hasher_lagging: bool,
    threads: usize,
}

fn run_scheduled(case: &SchedCase, samples: &[i32], seed: u64, partial: ExecResult) -> Scheduled {
    if (9..=12).contains(&case.strategy) {
        // real OS threads, no scheduler: whatever interleaving the machine produces (the parent's watchdog
        // turns a hang into "inconclusive"); complements the owned schedules for code paths that do not
        // pass a hook point (e.g. a non-blocking queue operation)
        ALL_PANICS.lock().unwrap().clear();
        if case.strategy >= 10 {
            // strategies 10/11/12: slow down the hashing thread / the feeder / the workers at their hook points
            let j = sched::Jitter::new(case.strategy - 10, 30 + seed % 1500);
            sched::install_jitter(&j);
        }
        let out = run_encode(case, samples, true);
        sched::uninstall();
        let me = format!("{:?}", std::thread::current().id());
        let helper_panics: Vec<String> = ALL_PANICS.lock().unwrap().iter().filter(|p| p.thread != me).map(|p| format!("{} at {}", p.msg.chars().take(100).collect::<String>(), p.loc)).collect();
        let nframes = enc::frames_of(case.inp.len, case.cfg.block_size, case.packet);
        return Scheduled { out, leaked: vec![], helper_panics, steps: 0, pushes: (0..nframes).collect(), ooo: 0, worker_pop_while_feeder_blocked: false, hasher_lagging: false, threads: 0 };
    }
    let strategy = match case.strategy {
        1 => SchedStrategy::Pct,
        2..=4 => SchedStrategy::Starve(case.strategy - 2),
        5 => SchedStrategy::HoldOne,
        _ => SchedStrategy::Uniform,
    };
    let s = Sched::new(strategy, case.choices.clone(), seed, case.pct_depth);
    {
        let purpose = case.purpose.clone();
        let mut st = s.st.lock().unwrap();
        st.on_abort = Some(Box::new(move |st, a| {
            let mut r = partial.clone();
            match a {
                Abort::Deadlock(why) => {
                    let mainop = st.threads.values().find(|t| t.role == "main").and_then(|t| t.op).map_or("-".into(), |(o, b)| format!("{o:?}({})", sched::obj_name(&b)));
                    r.viols.push((
                        format!("deadlock:main@{mainop}"),
                        format!("[{purpose}] every live thread is blocked ({why}); alive: {:?}; last events: {:?}", st.alive(), st.log.iter().rev().take(10).collect::<Vec<_>>()),
                    ));
                }
                Abort::StepBound => r.inconclusive = Some("step bound hit".into()),
                Abort::SpawnTimeout(w) => r.inconclusive = Some(format!("spawn timeout: {w}")),
            }
            r.exit_after = true;
            println!("{}", serde_json::to_string(&r).unwrap());
            let _ = std::io::stdout().flush();
        }));
    }
    ALL_PANICS.lock().unwrap().clear();
    sched::install(&s);
    s.register_main();
    let out = run_encode(case, samples, true);
    let leaked = s.at_return();
    sched::stop_monitor(&s);
    sched::uninstall();
    let st = s.st.lock().unwrap();
    let me = format!("{:?}", std::thread::current().id());
    let helper_panics: Vec<String> = ALL_PANICS.lock().unwrap().iter().filter(|p| p.thread != me).map(|p| format!("{} at {}", p.msg.chars().take(100).collect::<String>(), p.loc)).collect();
    Scheduled {
        out,
        leaked,
        helper_panics,
        steps: st.steps,
        pushes: st.pushes.clone(),
        ooo: st.out_of_order_distance(),
        worker_pop_while_feeder_blocked: st.saw_worker_pop_while_feeder_blocked,
        hasher_lagging: st.hasher_lagging_at_join,
        threads: st.threads.len(),
    }
}

/// Child side: evaluates one case completely.
pub fn exec_case(case: &SchedCase) -> ExecResult {
    let mut r = ExecResult::default();
    let samples = case.inp.samples();
    let block = case.cfg.block_size;
    let nframes = enc::frames_of(case.inp.len, block, case.packet);
    match &case.env {
        Some(v) => std::env::set_var("FLACENC_WORKERS", v),
        None => std::env::remove_var("FLACENC_WORKERS"),
    }
    r.classes.push(format!("workers:{}", case.cfg.workers.map_or("none".into(), |w| w.to_string())));
    r.classes.push(format!("env:{}", match case.env.as_deref() {
        None => "unset",
        Some("0") => "zero",
        Some(x) if x.parse::<usize>().map_or(false, |v| v > 0 && v < 100) => "number",
        Some(_) => "unparsable",
    }));
    r.classes.push(format!("strategy:{}", match case.strategy { 9 => "real-threads", 10 => "real-threads:slow-hasher", 11 => "real-threads:slow-feeder", 12 => "real-threads:slow-workers", s => ["uniform", "pct", "starve-hasher", "starve-feeder", "starve-workers"][(s as usize).min(4)] }));
    // reference: single-thread mode, same (possibly faulty) source; no hook installed
    let reference = run_encode(case, &samples, false);
    if reference.kind == "config-rejected" {
        r.classes.push("skipped:config-rejected(C07)".into());
        return r;
    }
    if reference.kind == "panic" {
        r.classes.push("skipped:single-thread-panic(C01)".into());
        return r;
    }
    if let Some(b) = &reference.bytes {
        if b.starts_with(b"oversized") {
            r.classes.push("skipped:oversized(C09)".into());
            return r;
        }
    }
    let s1 = run_scheduled(case, &samples, case.sched_seed, r.clone());
    r.classes.push(format!("threads:{}", s1.threads));
    if s1.ooo > 0 {
        r.classes.push(format!("out-of-order-distance:{}", if s1.ooo >= 1024 { ">=1024".to_string() } else if s1.ooo >= 64 { "64..1023".to_string() } else { s1.ooo.min(8).to_string() }));
    }
    if s1.worker_pop_while_feeder_blocked {
        r.classes.push("worker-popped-while-feeder-blocked".into());
    }
    if s1.hasher_lagging {
        r.classes.push("hasher-lagging-at-join".into());
    }
    let ctxs = format!(
        "workers {:?} env {:?} faults {:?} frames {nframes} block {block} {}; schedule seed {} strategy {}",
        case.cfg.workers, case.env, case.faults, case.inp.describe(), case.sched_seed, case.strategy
    );
    // --- termination / panics / leaks (all purposes)
    if s1.out.kind == "panic" {
        r.viols.push((format!("par-panic:{}", super::common::normalise(s1.out.panic.as_deref().unwrap_or("")).chars().take(70).collect::<String>()), format!("multi-thread encode panicked: {:?}; single-thread result: {}; {ctxs}", s1.out.panic, reference.kind)));
    }
    if !s1.helper_panics.is_empty() {
        r.viols.push((format!("helper-thread-panic:{}", super::common::normalise(&s1.helper_panics[0]).chars().take(70).collect::<String>()), format!("helper thread(s) panicked: {:?}; {ctxs}", s1.helper_panics)));
    }
    if !s1.leaked.is_empty() {
        r.viols.push(("threads-alive-at-return".into(), format!("{} thread(s) still alive when the call returned ({}): {:?}; {ctxs}", s1.leaked.len(), s1.out.kind, s1.leaked)));
        r.exit_after = true;
    }
    // With one worker the frames are encoded in order and the feeder is at most two buffers ahead: after a frame has
    // failed, the source must not be read much further (an endless source would otherwise never be released).
    // (a byte source wraps the planted value into the width: then there is no failure, and `reference.kind` is "ok")
    if case.purpose == "c06" && case.cfg.workers == Some(1) && case.packet == 0 && reference.kind != "ok" && case.src != SrcKind::Bytes {
        if let Some(k0) = case.faults.iter().filter_map(|f| if let Fault::Range(k, _) = f { Some(*k) } else { None }).min() {
            if !case.faults.iter().any(|f| matches!(f, Fault::ReadErr(k) | Fault::Width(k) if *k <= k0)) && k0 < nframes {
                r.classes.push("one-worker:reads-after-a-failed-frame-bounded".into());
                if s1.out.reads > k0 + 5 {
                    r.viols.push(("feeder-keeps-reading-after-a-failed-frame(workers=1)".into(), format!("block {k0} holds a sample outside the width, yet the source was read {} times (of {} blocks) before the call returned {}; {ctxs}", s1.out.reads, nframes, s1.out.kind)));
                }
            }
        }
    }
    if s1.out.kind != "panic" && s1.out.kind != reference.kind {
        r.viols.push((format!("result-kind-differs:single={}:multi={}", reference.kind, s1.out.kind), format!("single-thread returns {}, multi-thread returns {}; {ctxs}", reference.kind, s1.out.kind)));
    }
    // --- bytes
    if let (Some(a), Some(b)) = (&reference.bytes, &s1.out.bytes) {
        if a != b {
            r.viols.push(("bytes-differ:single-vs-multi".into(), format!("{} vs {} bytes, first difference at {:?}; pushes {:?}; {ctxs}", a.len(), b.len(), a.iter().zip(b.iter()).position(|(x, y)| x != y), s1.pushes)));
        }
        let mut sorted = s1.pushes.clone();
        sorted.sort();
        if sorted != (0..nframes).collect::<Vec<_>>() {
            r.viols.push(("frames-not-exactly-once".into(), format!("result pushes {:?} for {nframes} frames; {ctxs}", s1.pushes)));
        }
        if case.purpose == "c03" {
            let want = md5::pcm_md5(&samples, case.inp.bps);
            let tr = refdec::decode(&b[..b.len().min(42)], None);
            if tr.fatal.is_some() || tr.info.md5 != want || tr.info.total as usize != case.inp.len {
                r.viols.push(("sched:md5-or-total-wrong".into(), format!("STREAMINFO md5 {} total {} vs input md5 {} len {}; {ctxs}", hex(&tr.info.md5), tr.info.total, hex(&want), case.inp.len)));
            }
        }
        if case.purpose == "c05" && r.viols.is_empty() && !r.exit_after {
            // frame-by-frame assembly
            let mut c1 = case.cfg.clone();
            c1.multithread = false;
            if let Ok(v) = enc::verified(&c1) {
                if let Ok(Ok((s, _))) = catch(|| enc::encode_by_frames_packet(&v, &samples, case.inp.channels, case.inp.bps, case.inp.rate, block, case.src, case.packet)) {
                    let fb = to_bytes(&s, enc::sane_bits(samples.len(), case.inp.bps));
                    if &fb != a {
                        r.viols.push(("bytes-differ:single-vs-frame-assembly".into(), format!("{} vs {} bytes; {ctxs}", a.len(), fb.len())));
                    }
                }
            }
            // repeat with another schedule
            let s2 = run_scheduled(case, &samples, case.sched_seed2, r.clone());
            if !s2.leaked.is_empty() {
                r.exit_after = true;
            }
            if s2.out.bytes.as_ref() != Some(b) {
                r.viols.push(("bytes-differ:repeat-run".into(), format!("second schedule (seed {}) gave different output ({}); {ctxs}", case.sched_seed2, s2.out.kind)));
            }
            if s2.pushes != s1.pushes {
                r.classes.push("repeat:different-push-order".into());
            }
        }
    }
    // non-triviality
    r.nontrivial = match case.purpose.as_str() {
        "c05" => s1.ooo > 0 || s1.worker_pop_while_feeder_blocked || (case.strategy >= 9 && nframes > 16),
        "c06" => {
            let w = case.cfg.workers.unwrap_or(16);
            (!case.faults.is_empty() && w >= 2 && case.faults.iter().any(|f| match f {
                Fault::ReadErr(k) => *k >= 1,
                Fault::Range(k, _) => *k >= 1,
                Fault::Width(k) => *k >= 1,
            })) || (case.faults.is_empty() && nframes >= 2)
        }
        _ => s1.hasher_lagging || (nframes >= 2 && case.inp.bps != 16),
    };
    for f in &case.faults {
        r.classes.push(match f {
            Fault::ReadErr(k) => format!("fault:read-error@{}", if *k == 0 { "0" } else if *k < nframes { "mid" } else { "end" }),
            Fault::Range(k, _) => format!("fault:out-of-range@{}", if *k == 0 { "0" } else if *k + 1 < nframes { "mid" } else { "last" }),
            Fault::Width(k) => format!("fault:byte-width@{}", if *k == 0 { "0" } else if *k + 1 < nframes { "mid" } else { "last" }),
        });
    }
    if case.faults.len() >= 2 {
        r.classes.push("fault:multiple".into());
    }
    if case.faults.is_empty() {
        r.classes.push("fault:none".into());
    }
    r.classes.push(format!("result:{}", s1.out.kind));
    r.classes.push(format!("steps:{}", match s1.steps {
        0..=50 => "<=50",
        51..=200 => "51-200",
        201..=1000 => "201-1000",
        _ => ">1000",
    }));
    r
}

/// `vh exec-sched`: reads one JSON case per line, answers one JSON line per case.
pub fn executor_main() -> i32 {
    let stdin = std::io::stdin();
    let mut line = String::new();
    loop {
        line.clear();
        match stdin.lock().read_line(&mut line) {
            Ok(0) | Err(_) => return 0,
            Ok(_) => {}
        }
        let Ok(case) = serde_json::from_str::<SchedCase>(&line) else {
            println!("{}", serde_json::to_string(&ExecResult { inconclusive: Some("bad case".into()), ..Default::default() }).unwrap());
            continue;
        };
        let r = match catch(|| exec_case(&case)) {
            Ok(r) => r,
            Err(p) => ExecResult { inconclusive: Some(format!("executor panic: {} at {}", p.msg, p.loc)), exit_after: true, ..Default::default() },
        };
        println!("{}", serde_json::to_string(&r).unwrap());
        let _ = std::io::stdout().flush();
        if r.exit_after {
            return 0;
        }
    }
}

// ------------------------------------------------------------------------------------------------
// parent side
// ------------------------------------------------------------------------------------------------

struct Exec {
    child: Child,
    stdin: ChildStdin,
    rx: Receiver<String>,
}

static POOL: Mutex<Vec<Exec>> = Mutex::new(Vec::new());

fn spawn_exec() -> Option<Exec> {
    let exe = std::env::current_exe().ok()?;
    let mut child = Command::new(exe).arg("exec-sched").stdin(Stdio::piped()).stdout(Stdio::piped()).stderr(Stdio::null()).spawn().ok()?;
    let stdin = child.stdin.take()?;
    let stdout = child.stdout.take()?;
    let (tx, rx) = channel();
    std::thread::spawn(move || {
        let rd = BufReader::new(stdout);
        for l in rd.lines() {
            match l {
                Ok(l) => {
                    if tx.send(l).is_err() {
                        break;
                    }
                }
                Err(_) => break,
            }
        }
    });
    Some(Exec { child, stdin, rx })
}

pub fn shutdown_pool() {
    let mut p = POOL.lock().unwrap();
    for mut e in p.drain(..) {
        let _ = e.child.kill();
        let _ = e.child.wait();
    }
}

/// Parent side of one case: ships it to an executor, with a watchdog.
pub fn check(case: &SchedCase) -> Outcome {
    let mut out = Outcome::new(case.fp());
    let ex = POOL.lock().unwrap().pop();
    let Some(mut ex) = ex.or_else(spawn_exec) else {
        out.inconclusive = Some("cannot spawn executor".into());
        return out;
    };
    let line = serde_json::to_string(case).unwrap();
    if writeln!(ex.stdin, "{line}").and_then(|_| ex.stdin.flush()).is_err() {
        let _ = ex.child.kill();
        let _ = ex.child.wait();
        out.inconclusive = Some("executor died before the case was sent".into());
        return out;
    }
    match ex.rx.recv_timeout(Duration::from_secs(60)) {
        Ok(l) => match serde_json::from_str::<ExecResult>(&l) {
            Ok(r) => {
                out.classes = r.classes;
                out.nontrivial = r.nontrivial;
                for (s, d) in r.viols {
                    out.viol(s, d);
                }
                out.inconclusive = r.inconclusive;
                if r.exit_after {
                    let _ = ex.child.kill();
                    let _ = ex.child.wait();
                } else {
                    POOL.lock().unwrap().push(ex);
                }
            }
            Err(e) => {
                let _ = ex.child.kill();
                let _ = ex.child.wait();
                out.inconclusive = Some(format!("unreadable executor answer: {e}"));
            }
        },
        Err(_) => {
            let _ = ex.child.kill();
            let _ = ex.child.wait();
            out.inconclusive = Some("watchdog: executor gave no answer within 60 s (or died)".into());
        }
    }
    out
}

// ------------------------------------------------------------------------------------------------
// generators
// ------------------------------------------------------------------------------------------------

fn small_input(min_frames: usize, max_frames: usize) -> BoxedStrategy<(CfgSpec, InputSpec)> {
    gen::with_cfg_block(gen::cfg_strategy(CfgOpts { max_block: 192, ..Default::default() }))
        .prop_flat_map(move |cfg| {
            let b = cfg.block_size;
            (Just(cfg), gen::input_strategy(b, InOpts { budget: 6000, max_channels: 3, ..Default::default() }), min_frames..=max_frames, 0usize..b)
        })
        .prop_map(|(cfg, mut inp, k, r)| {
            inp.len = (k * cfg.block_size + if r % 3 == 0 { 0 } else { r }).max(1);
            (cfg, inp)
        })
        .boxed()
}

fn sched_fields() -> impl Strategy<Value = (u8, usize, Vec<u8>, u64, u64)> {
    (prop_oneof![3 => Just(0u8), 3 => Just(1u8), 2 => Just(2u8), 1 => Just(3u8), 1 => Just(4u8)], 0usize..=4, proptest::collection::vec(any::<u8>(), 0..40), any::<u64>(), any::<u64>())
}

pub fn env_strategy() -> BoxedStrategy<Option<String>> {
    prop_oneof![
        6 => Just(None),
        4 => (1usize..=8).prop_map(|n| Some(n.to_string())),
        2 => Just(Some("0".to_string())),
        1 => Just(Some(String::new())),
        1 => Just(Some("abc".to_string())),
        1 => Just(Some("-1".to_string())),
        1 => Just(Some(" 2".to_string())),
        1 => Just(Some("1180591620717411303424".to_string())),
        1 => Just(Some("00".to_string())),
    ]
    .boxed()
}

/// more blocks than the hashing queue holds (16) and than there are frame buffers (2 x workers)
fn many_frames_input() -> BoxedStrategy<(CfgSpec, InputSpec)> {
    gen::with_cfg_block(gen::cfg_strategy(CfgOpts { max_block: 64, ..Default::default() }))
        .prop_flat_map(move |cfg| {
            let b = cfg.block_size;
            (Just(cfg), gen::input_strategy(b, InOpts { budget: 6000, max_channels: 2, ..Default::default() }), 17usize..=45, 0usize..b)
        })
        .prop_map(|(cfg, mut inp, k, r)| {
            inp.len = k * cfg.block_size + if r % 3 == 0 { 0 } else { r };
            (cfg, inp)
        })
        .boxed()
}

/// Real OS threads, many small blocks, many workers (the feeder never waits for a buffer, the hashing
/// thread falls behind).
pub fn real_threads_strategy(purpose: &'static str) -> BoxedStrategy<SchedCase> {
    (many_frames_input(), 8usize..=32, super::common::src_strategy(), any::<bool>(), any::<u64>())
        .prop_map(move |((mut cfg, mut inp), workers, src, fe, s)| {
            cfg.multithread = true;
            cfg.workers = Some(workers);
            inp.len = inp.len * 2;
            SchedCase { purpose: purpose.into(), cfg, inp, src, fill_empty_at_end: fe, faults: vec![], env: None, strategy: [9u8, 10, 10, 11, 12][(s % 5) as usize], pct_depth: 0, choices: vec![], sched_seed: s, sched_seed2: s ^ 1, packet: 0, len_hint: s % 2 == 0 }
        })
        .boxed()
}

/// empty and tiny inputs (no frame at all, one short frame)
fn empty_or_tiny_input() -> BoxedStrategy<(CfgSpec, InputSpec)> {
    (small_input(1, 1), prop_oneof![3 => Just(0usize), 1 => 1usize..=15]).prop_map(|((cfg, mut inp), len)| {
        inp.len = len;
        (cfg, inp)
    }).boxed()
}

pub fn c05_strategy() -> BoxedStrategy<SchedCase> {
    (prop_oneof![6 => small_input(3, 12), 2 => many_frames_input(), 1 => empty_or_tiny_input()], prop_oneof![3 => (1usize..=8).prop_map(Some), 1 => Just(None)], env_strategy(), sched_fields(), super::common::src_strategy(), any::<bool>())
        .prop_map(|((mut cfg, inp), workers, env, (strategy, pct_depth, choices, s1, s2), src, fe)| {
            cfg.multithread = true;
            cfg.workers = workers;
            // the environment only matters when config.workers is None
            let env = if workers.is_some() && env.is_some() && s1 % 2 == 0 { None } else { env };
            SchedCase { purpose: "c05".into(), cfg, inp, src, fill_empty_at_end: fe, faults: vec![], env, strategy, pct_depth, choices, sched_seed: s1, sched_seed2: s2, packet: if s2 % 5 == 0 { 1 + ((s2 / 5) as usize % 600) } else { 0 }, len_hint: s2 % 3 == 0 }
        })
        .boxed()
}

pub fn fault_strategy(nframes_max: usize) -> BoxedStrategy<Vec<Fault>> {
    let one = move || prop_oneof![(0usize..=nframes_max).prop_map(Fault::ReadErr), (0usize..nframes_max.max(1), 0usize..4000).prop_map(|(k, o)| Fault::Range(k, o)), (0usize..nframes_max.max(1)).prop_map(Fault::Width)];
    prop_oneof![
        2 => Just(vec![]),
        6 => one().prop_map(|f| vec![f]),
        2 => proptest::collection::vec(one(), 2..=4),
        1 => (0usize..nframes_max.max(1)).prop_map(move |k0| (k0..nframes_max.max(1)).map(|k| Fault::Range(k, 7)).collect()),
    ]
    .boxed()
}

pub fn c06_strategy() -> BoxedStrategy<SchedCase> {
    (prop_oneof![9 => small_input(1, 12), 1 => empty_or_tiny_input()], 1usize..=5, sched_fields(), super::common::src_strategy(), any::<bool>())
        .prop_flat_map(|((cfg, inp), workers, sf, src, fe)| {
            let nf = (inp.len + cfg.block_size - 1) / cfg.block_size;
            (Just((cfg, inp, workers, sf, src, fe)), fault_strategy(nf))
        })
        .prop_map(|((mut cfg, inp, workers, (strategy, pct_depth, choices, s1, s2), src, fe), faults)| {
            cfg.multithread = true;
            cfg.workers = Some(workers);
            // a tenth of the cases leave the worker count to the environment override
            let envs = [Some("0"), Some("3"), Some(""), Some("00"), Some("abc"), None];
            let env = if s1 % 10 == 0 { cfg.workers = None; envs[(s1 / 10 % 6) as usize].map(String::from) } else { None };
            SchedCase { purpose: "c06".into(), cfg, inp, src, fill_empty_at_end: fe, faults, env, strategy, pct_depth, choices, sched_seed: s1, sched_seed2: s2, packet: if s2 % 5 == 0 { 1 + ((s2 / 5) as usize % 600) } else { 0 }, len_hint: s2 % 3 == 0 }
        })
        .boxed()
}

pub fn c03_strategy() -> BoxedStrategy<SchedCase> {
    (prop_oneof![2 => small_input(1, 30), 1 => many_frames_input()], 1usize..=4, sched_fields(), super::common::src_strategy(), any::<bool>())
        .prop_map(|((mut cfg, inp), workers, (strategy, pct_depth, choices, s1, s2), src, fe)| {
            cfg.multithread = true;
            cfg.workers = Some(workers);
            SchedCase { purpose: "c03".into(), cfg, inp, src, fill_empty_at_end: fe, faults: vec![], env: None, strategy, pct_depth, choices, sched_seed: s1, sched_seed2: s2, packet: if s2 % 5 == 0 { 1 + ((s2 / 5) as usize % 600) } else { 0 }, len_hint: s2 % 3 == 0 }
        })
        .boxed()
}

// ------------------------------------------------------------------------------------------------
// properties
// ------------------------------------------------------------------------------------------------

fn c_frames(len: &usize, block: usize) -> usize {
    (*len + block - 1) / block.max(1)
}

pub fn run_c05(ctx: &Ctx) {
    ctx.rule(
        "cases = (config with multithread, >= 3-frame input (a tenth: empty or 1..15-sample inputs), workers in {1..8, None}, FLACENC_WORKERS in {unset, 1..8, '0', '', 'abc', '-1', ' 2', 2^70, '00'}, schedule = (strategy uniform | PCT | starve-the-hashing-thread | starve-the-feeder | starve-the-workers, choice bytes, seed); a fifth of the cases read from a packet source (short reads in mid-stream); a quarter of the cases have 17..=45 frames (more than the hashing queue and the frame buffers hold)); \
         every case runs in an executor process under the schedule-owning scheduler (a further family uses real OS threads with 34..90 small blocks and 8..32 workers, optionally with the hashing thread / the feeder / the workers slowed down at their hook points, for code paths that pass no hook point; and a grid of 127..4100-frame streams (thorough: up to 70000) whose frame numbers take 2..4 bytes; general shapes (1..=8 channels, blocks up to 4608, all source kinds, with and without length hint) under real threads; and owned schedules of 1027..4200 frames in which one worker is held at the result sink until every other frame has overtaken it); oracle: bytes(multi under schedule) == bytes(single) == bytes(frame-by-frame assembly) == bytes(multi under a second schedule), no dead-lock, no panic, no thread alive at return; \
         non-trivial = result pushes out of frame order, or a worker popped a buffer while the feeder was blocked on the refill queue, or a real-thread run with more than 16 blocks",
    );
    ctx.assume("only hook points are scheduling points: par.rs shares state only through the channels, mutexes and Arcs the hook sees; interleavings inside crossbeam/std and weak-memory effects are not explored");
    ctx.shrink_iters.store(150, std::sync::atomic::Ordering::Relaxed);
    let per = ctx.tier.scale(150, 12);
    ctx.search("sched", 12, per, &c05_strategy, check);
    ctx.search("real-threads-many-blocks", 6, per / 2, &|| real_threads_strategy("c05"), check);
    // thousands of frames: frame numbers that need 2, 3 (and in the thorough tier 4) bytes in the header coding,
    // with the largest frames at the end, the beginning, or nowhere in particular
    let big: Vec<SchedCase> = super::common::many_frames_cases(ctx.tier == Tier::Thorough)
        .into_iter()
        .filter(|c| c.entry == super::common::Entry::Multi)
        .enumerate()
        .map(|(i, c)| { let (c_len, c_block) = (c.inp.len, c.cfg.block_size); SchedCase {
            purpose: "c05".into(),
            cfg: { let mut k = c.cfg.clone(); k.workers = Some(2 + i % 5); k },
            inp: c.inp,
            src: if i % 2 == 0 { SrcKind::Int } else { SrcKind::Bytes },
            fill_empty_at_end: i % 4 < 2,
            faults: vec![],
            env: None,
            // the slowed-down variants (10..12) sleep at every hook point: only for streams of a few thousand frames
            strategy: if c_frames(&c_len, c_block) > 5000 { 9 } else { [9u8, 10, 11, 12][i % 4] },
            pct_depth: 0,
            choices: vec![],
            sched_seed: crate::util::mix(ctx.seed, i as u64),
            sched_seed2: 1,
            packet: 0,
            len_hint: i % 3 != 0,
        }})
        .collect();
    let nb = big.len() as u64;
    ctx.enumerate("real-threads-thousands-of-frames", 6, nb, |i| big[i as usize].clone(), check);
    // general shapes under real threads: 1..=8 channels, block sizes up to 4608, every source kind with and without
    // a length hint (the scheduled families keep inputs tiny: <= 3 channels, blocks <= 192)
    ctx.search("real-threads-wide-shapes", 6, per, &|| {
        (gen::cfg_input_strategy(CfgOpts { max_block: 4608, ..Default::default() }, InOpts { budget: 24_000, ..Default::default() }), 1usize..=6, super::common::src_strategy(), any::<bool>(), any::<u64>()).prop_map(|((mut cfg, inp), workers, src, fe, s)| {
            cfg.multithread = true;
            cfg.workers = Some(workers);
            SchedCase { purpose: "c05".into(), cfg, inp, src, fill_empty_at_end: fe, faults: vec![], env: None, strategy: 9, pct_depth: 0, choices: vec![], sched_seed: s, sched_seed2: s ^ 1, packet: 0, len_hint: s % 2 == 0 }
        })
    }, check);
    // one worker held at the result sink while more than a thousand frames overtake it (owned schedule)
    {
        let n = if ctx.tier == Tier::Thorough { 24u64 } else { 6 };
        ctx.enumerate("sched-hold-one-worker", 6, n, |i| {
            let frames = [1100usize, 1300, 1027, 2100, 1500, 4200][i as usize % 6];
            let mut cfg = CfgSpec::default();
            cfg.block_size = 32;
            cfg.multithread = true;
            cfg.workers = Some(2 + i as usize % 3);
            cfg.use_lpc = false;
            let inp = InputSpec { channels: 1, bps: 8, rate: 8000, len: frames * 32 - (i as usize % 2) * 7, chans: vec![gen::ChanSpec { segs: vec![gen::Seg { class: if i % 2 == 0 { 0 } else { 4 }, amp: 1, p: 5 }] }], rel: 0, seed: 40 + i, explicit: None };
            SchedCase { purpose: "c05".into(), cfg, inp, src: if i % 2 == 0 { SrcKind::Int } else { SrcKind::Mem }, fill_empty_at_end: true, faults: vec![], env: None, strategy: 5, pct_depth: 0, choices: vec![], sched_seed: crate::util::mix(ctx.seed, 77 + i), sched_seed2: 0, packet: 0, len_hint: i % 2 == 1 }
        }, check);
    }
    if ctx.tier == Tier::Thorough {
        real_thread_layer(ctx, "c05");
    }
    shutdown_pool();
}

pub fn run_c06(ctx: &Ctx) {
    ctx.rule(
        "fault enumeration: for 1..=6-frame inputs every fault position k in 0..=frames x {read error, out-of-range sample} x workers 1..=3 x 4 schedules (complete over positions); with one worker and a bad sample early in a 60..100-frame input the source must not be read more than five blocks past the failed one (an endless source must be released); generated part: sets of faults, workers 1..=5, generated schedules, fault-free controls; \
         oracle under the scheduler: the call returns (no dead-lock verdict), result kind equals the single-thread run of the same faulty source, no thread panicked, no thread alive at return, fault-free runs give frames 0..n-1 exactly once with bytes equal to single-thread; \
         non-trivial = fault at k >= 1 with >= 2 workers, or a fault-free control with >= 2 frames",
    );
    ctx.assume("only hook points are scheduling points; termination is decided exactly for generated schedules (dead-lock = no enabled thread), not for interleavings inside crossbeam/std");
    ctx.shrink_iters.store(150, std::sync::atomic::Ordering::Relaxed);
    // complete over fault positions for small inputs
    let max_frames = if ctx.tier == Tier::Thorough { 16 } else { 8 };
    let max_workers = if ctx.tier == Tier::Thorough { 6 } else { 4 };
    let scheds = if ctx.tier == Tier::Thorough { 48 } else { 8 };
    let mut grid: Vec<SchedCase> = vec![];
    for frames in 1..=max_frames {
        for k in 0..=frames {
            for kind in 0..3 {
                if kind >= 1 && k == frames {
                    continue;
                }
                for w in 1..=max_workers {
                    for s in 0..scheds {
                        let mut cfg = CfgSpec::default();
                        cfg.block_size = 32;
                        cfg.multithread = true;
                        cfg.workers = Some(w);
                        let inp = InputSpec { channels: 1 + (frames + k) % 2, bps: 16, rate: 44100, len: frames * 32 - (k % 2) * 5, chans: vec![gen::ChanSpec { segs: vec![gen::Seg { class: 5, amp: 3, p: 77 }] }; 2], rel: 0, seed: (frames * 100 + k) as u64, explicit: None };
                        let faults = vec![match kind { 0 => Fault::ReadErr(k), 1 => Fault::Range(k, 3), _ => Fault::Width(k) }];
                        grid.push(SchedCase {
                            purpose: "c06".into(),
                            cfg,
                            inp,
                            src: if s % 2 == 0 { SrcKind::Int } else { SrcKind::Bytes },
                            fill_empty_at_end: s % 4 < 2,
                            faults,
                            env: None,
                            strategy: (s % 5) as u8,
                            pct_depth: 1 + s % 3,
                            choices: vec![],
                            sched_seed: crate::util::mix(ctx.seed, (frames * 1000 + k * 50 + w * 10 + s) as u64),
                            sched_seed2: 0,
                            packet: 0,
                            len_hint: s % 3 == 2,
                        });
                    }
                }
            }
        }
    }
    // one worker, a bad sample early in a long input: the source must be released soon after the failed frame
    for k in [0usize, 1, 2, 5, 9] {
        for s in 0..scheds.min(6) {
            let mut cfg = CfgSpec::default();
            cfg.block_size = 32;
            cfg.multithread = true;
            cfg.workers = Some(1);
            let frames = k + 60 + 7 * s;
            let inp = InputSpec { channels: 1, bps: 16, rate: 44100, len: frames * 32 - 3, chans: vec![gen::ChanSpec { segs: vec![gen::Seg { class: 5, amp: 3, p: 77 }] }], rel: 0, seed: (k * 10 + s) as u64, explicit: None };
            grid.push(SchedCase { purpose: "c06".into(), cfg, inp, src: SrcKind::Int, fill_empty_at_end: s % 2 == 0, faults: vec![Fault::Range(k, 5)], env: None, strategy: (s % 5) as u8, pct_depth: 1, choices: vec![], sched_seed: crate::util::mix(ctx.seed, (9000 + k * 10 + s) as u64), sched_seed2: 0, packet: 0, len_hint: false });
        }
    }
    let n = grid.len() as u64;
    ctx.enumerate("fault-positions", 12, n, |i| grid[i as usize].clone(), check);
    ctx.set_extra("fault_grid", serde_json::json!({"frames": format!("1..={max_frames}"), "positions": "every k in 0..=frames", "kinds": ["read error", "out-of-range sample", "byte fill with a wrong container width"], "workers": format!("1..={max_workers}"), "schedules_per_point": scheds, "points": n}));
    let per = ctx.tier.scale(300, 12);
    ctx.search("sched-faults", 12, per, &c06_strategy, check);
    // real OS threads with faults (no owned schedule; a hang here is inconclusive, the exact verdict comes from the scheduler)
    ctx.search("real-threads-faults", 6, per / 3, &|| {
        (real_threads_strategy("c06"), any::<u64>()).prop_map(|(mut c, s)| {
            let nf = enc::frames_of(c.inp.len, c.cfg.block_size, 0).max(1);
            let k = (s % nf as u64) as usize;
            c.faults = match s % 5 {
                4 => vec![Fault::Width(k)],
                0 => vec![],
                1 => vec![Fault::ReadErr(k)],
                2 => vec![Fault::Range(k, (s >> 8) as usize % 4000)],
                _ => vec![Fault::Range(k, 3), Fault::ReadErr((k + 1 + (s >> 16) as usize % 5).min(nf))],
            };
            c.cfg.workers = Some(1 + (s >> 24) as usize % 6);
            c
        })
    }, check);
    if ctx.tier == Tier::Thorough {
        real_thread_layer(ctx, "c06");
    }
    shutdown_pool();
}

pub fn c03_sched_part(ctx: &Ctx) {
    ctx.shrink_iters.store(150, std::sync::atomic::Ordering::Relaxed);
    let per = ctx.tier.scale(40, 15);
    ctx.search("sched-hashing-thread", 12, per, &c03_strategy, check);
    ctx.search("real-threads-many-blocks", 6, per * 2, &|| real_threads_strategy("c03"), check);
    shutdown_pool();
}

pub fn replay(path: &str) -> Result<Outcome, String> {
    let (_k, case): (String, SchedCase) = crate::core::load_replay(path)?;
    let o = check(&case);
    shutdown_pool();
    Ok(o)
}

pub fn replay_value(case: serde_json::Value) -> Result<Outcome, String> {
    let c: SchedCase = serde_json::from_value(case).map_err(|e| e.to_string())?;
    let o = check(&c);
    shutdown_pool();
    Ok(o)
}

/// Thorough tier only: the same cases with real concurrency (no scheduler). A hang is inconclusive
/// (watchdog); thread leaks are read from /proc/self/task.
/// Thorough tier: a larger sample of the real-thread family.
fn real_thread_layer(ctx: &Ctx, purpose: &'static str) {
    ctx.search("real-threads-many-blocks-thorough", 8, 400, &|| real_threads_strategy(purpose), check);
}
