//! Shared stream-level case type and runner used by C01/C02/C03/C04/C08/C09/C13/C15.

use crate::enc::{self, SrcKind};
use crate::gen::{self, CfgOpts, CfgSpec, InOpts, InputSpec};
use crate::oracle::refdec::{self, Trace};
use crate::util::{catch, fnv, PanicInfo};
use flacenc::component::{Frame, Stream};
use proptest::prelude::*;
use serde::{Deserialize, Serialize};

#[derive(Clone, Copy, Debug, PartialEq, Eq, Serialize, Deserialize)]
pub enum Entry {
    /// `encode_with_fixed_block_size`, `multithread = false`
    Single,
    /// `encode_with_fixed_block_size`, `multithread = true` (real threads)
    Multi,
    /// frame-level loop: FrameBuf / Context / encode_fixed_size_frame / Stream::add_frame
    Frames,
}

#[derive(Clone, Debug, PartialEq, Serialize, Deserialize)]
pub struct StreamCase {
    pub cfg: CfgSpec,
    pub inp: InputSpec,
    pub entry: Entry,
    pub src: SrcKind,
}

impl StreamCase {
    pub fn fp(&self) -> u64 {
        fnv(serde_json::to_string(self).unwrap_or_default().as_bytes())
    }
}

pub fn entry_strategy(multi: bool) -> BoxedStrategy<Entry> {
    if multi {
        prop_oneof![4 => Just(Entry::Single), 2 => Just(Entry::Multi), 2 => Just(Entry::Frames)].boxed()
    } else {
        prop_oneof![4 => Just(Entry::Single), 2 => Just(Entry::Frames)].boxed()
    }
}

pub fn src_strategy() -> BoxedStrategy<SrcKind> {
    prop_oneof![2 => Just(SrcKind::Mem), 1 => Just(SrcKind::Int), 1 => Just(SrcKind::Bytes)].boxed()
}

pub fn stream_case_strategy(co: CfgOpts, io: InOpts, multi: bool) -> BoxedStrategy<StreamCase> {
    (gen::cfg_input_strategy(co, io), entry_strategy(multi), src_strategy())
        .prop_map(|((mut cfg, inp), entry, src)| {
            cfg.multithread = entry == Entry::Multi;
            if entry == Entry::Multi && cfg.workers.is_none() {
                // keep the real-thread count moderate inside a 16-thread harness
                cfg.workers = Some(1 + (inp.seed % 4) as usize);
            }
            StreamCase { cfg, inp, entry, src }
        })
        .boxed()
}

pub struct StreamRun {
    pub samples: Vec<i32>,
    pub stream: Stream,
    pub frames: Option<Vec<Frame>>,
    pub bytes: Vec<u8>,
    pub trace: Trace,
}

#[derive(Debug)]
pub enum RunErr {
    CfgRejected(String),
    Panic(PanicInfo),
    EncodeErr(String),
    Oversized(String),
    WriteErr(String),
}

/// Encodes through the chosen entry point (panic captured), without serialising.
pub fn encode_case(case: &StreamCase, samples: &[i32]) -> Result<(Stream, Option<Vec<Frame>>), RunErr> {
    let vcfg = enc::verified(&case.cfg).map_err(RunErr::CfgRejected)?;
    let (ch, bps, rate, block) = (case.inp.channels, case.inp.bps, case.inp.rate, case.cfg.block_size);
    if case.entry == Entry::Multi {
        // pre-flight in single-thread mode: workers precompute (allocate) every frame, so a frame of
        // gigabytes (a C09 violation, reported there) must not reach the real-thread run.
        let mut c1 = case.cfg.clone();
        c1.multithread = false;
        let v1 = enc::verified(&c1).map_err(RunErr::CfgRejected)?;
        match catch(|| enc::encode_stream(&v1, samples, ch, bps, rate, block, case.src)) {
            Ok(Ok(s)) => {
                use flacenc::component::BitRepr;
                let bits = s.count_bits();
                if bits > enc::sane_bits(samples.len(), bps) {
                    return Err(RunErr::Oversized(format!("oversized: count_bits={bits}")));
                }
            }
            Ok(Err(e)) => return Err(RunErr::EncodeErr(e)),
            Err(p) => return Err(RunErr::Panic(p)),
        }
    }
    let r = catch(|| match case.entry {
        Entry::Single | Entry::Multi => enc::encode_stream(&vcfg, samples, ch, bps, rate, block, case.src).map(|s| (s, None)),
        Entry::Frames => enc::encode_by_frames(&vcfg, samples, ch, bps, rate, block, case.src).map(|(s, f)| (s, Some(f))),
    });
    match r {
        Err(p) => Err(RunErr::Panic(p)),
        Ok(Err(e)) => Err(RunErr::EncodeErr(e)),
        Ok(Ok(x)) => Ok(x),
    }
}

pub fn run_stream(case: &StreamCase) -> Result<StreamRun, RunErr> {
    let samples = case.inp.samples();
    let (stream, frames) = encode_case(case, &samples)?;
    let limit = enc::sane_bits(samples.len(), case.inp.bps);
    let bytes = match catch(|| enc::stream_bytes(&stream, limit)) {
        Err(p) => return Err(RunErr::Panic(p)),
        Ok(Err(e)) if e.starts_with("oversized") => return Err(RunErr::Oversized(e)),
        Ok(Err(e)) => return Err(RunErr::WriteErr(e)),
        Ok(Ok(b)) => b,
    };
    let trace = refdec::decode(&bytes, Some(case.cfg.block_size));
    Ok(StreamRun { samples, stream, frames, bytes, trace })
}

/// Replaces every run of digits by `#` so that messages group by kind.
pub fn normalise(msg: &str) -> String {
    let mut out = String::new();
    let mut in_num = false;
    for c in msg.chars() {
        if c.is_ascii_digit() {
            if !in_num {
                out.push('#');
            }
            in_num = true;
        } else {
            in_num = false;
            out.push(c);
        }
    }
    out
}

/// Class labels describing the shape of a decoded stream (for histograms / non-triviality).
pub fn trace_classes(tr: &Trace, out: &mut crate::core::Outcome) -> (bool, bool) {
    let mut predictive = false;
    let mut stereo_mode = false;
    let mut kinds = [false; 4];
    for f in &tr.frames {
        match f.ch_code {
            8 => {
                stereo_mode = true;
                out.class("assign:left-side");
            }
            9 => {
                stereo_mode = true;
                out.class("assign:right-side");
            }
            10 => {
                stereo_mode = true;
                out.class("assign:mid-side");
            }
            _ => {}
        }
        for s in &f.subframes {
            match &s.kind {
                refdec::SubT::Constant { .. } => kinds[0] = true,
                refdec::SubT::Verbatim => kinds[1] = true,
                refdec::SubT::Fixed { .. } => {
                    kinds[2] = true;
                    predictive = true;
                }
                refdec::SubT::Lpc { .. } => {
                    kinds[3] = true;
                    predictive = true;
                }
            }
        }
    }
    for (i, n) in ["constant", "verbatim", "fixed", "lpc"].iter().enumerate() {
        if kinds[i] {
            out.class(format!("has:{n}"));
        }
    }
    (predictive, stereo_mode)
}

pub fn lpc_stress_case_strategy() -> BoxedStrategy<StreamCase> {
    (gen::lpc_stress_strategy(), entry_strategy(false), src_strategy())
        .prop_map(|((mut cfg, inp), entry, src)| {
            cfg.multithread = false;
            if inp.seed % 2 == 0 {
                cfg.use_fixed = false;
            }
            StreamCase { cfg, inp, entry, src }
        })
        .boxed()
}

/// Streams with MANY small frames, so that multi-byte frame numbers (>= 128, >= 2048, in the thorough tier
/// >= 65536) occur and the largest / smallest frames of the stream carry such numbers.
/// block size 32, mono; signals: silence, sine + noise, near-silence followed by loud noise.
pub fn many_frames_cases(thorough: bool) -> Vec<StreamCase> {
    use crate::gen::{ChanSpec, CfgSpec, InputSpec, Seg};
    let mut counts: Vec<usize> = vec![127, 128, 129, 130, 1030, 2046, 2047, 2048, 2049, 2050, 2100, 4100];
    if thorough {
        counts.extend([32767, 32768, 32769, 65535, 65536, 65537, 70000]);
    }
    let mut v = vec![];
    for (ci, &frames) in counts.iter().enumerate() {
        for sig in 0..3u8 {
            for entry in [Entry::Single, Entry::Multi, Entry::Frames] {
                if frames > 5000 && (sig != 2 || entry == Entry::Frames) {
                    continue;
                }
                let mut cfg = CfgSpec::default();
                cfg.block_size = 32 + (ci % 2) * 32;
                cfg.multithread = entry == Entry::Multi;
                cfg.workers = Some(2);
                let segs = match sig {
                    0 => vec![Seg { class: 0, amp: 0, p: 0 }],
                    1 => vec![Seg { class: 4, amp: 3, p: 777 }],
                    // quiet first, loud at the end: the largest frames carry the largest numbers
                    _ => vec![Seg { class: 15, amp: 0, p: 1 }, Seg { class: 15, amp: 0, p: 2 }, Seg { class: 2, amp: 3, p: 3 }],
                };
                let len = frames * cfg.block_size - if sig == 1 { 5 } else { 0 };
                let inp = InputSpec { channels: 1, bps: if sig == 0 { 8 } else { 16 }, rate: 32000, len, chans: vec![ChanSpec { segs }], rel: 0, seed: 1000 + frames as u64 + sig as u64, explicit: None };
                v.push(StreamCase { cfg, inp, entry, src: SrcKind::Mem });
            }
        }
    }
    v
}

/// `Stream::write` into the word-backed in-memory sink (behind 0..2 stray bytes, so that it is not word-aligned) and into
/// a user sink that implements only the required operations must give the bytes `ByteSink` received.
pub fn other_sinks_agree(stream: &Stream, bytes: &[u8], seed: u64) -> Result<(), (String, String)> {
    use flacenc::bitsink::{BitSink, MemSink};
    use flacenc::component::BitRepr;
    let r = catch(|| -> Result<Option<String>, String> {
        let mut w = MemSink::<u64>::new();
        let lead = (seed % 3) as usize;
        for _ in 0..lead {
            w.write::<u8>(0xA7).map_err(|e| format!("{e:?}"))?;
        }
        stream.write(&mut w).map_err(|e| format!("MemSink<u64>: {e:?}"))?;
        let mut b = vec![0u8; (w.len() + 7) / 8];
        w.write_to_byte_slice(&mut b);
        if b[lead..] != bytes[..] {
            return Ok(Some(format!("MemSink<u64> (after {lead} leading bytes)")));
        }
        if bytes.len() <= 60_000 {
            let mut u = crate::oracle::bits::MinimalSink::new();
            stream.write(&mut u).map_err(|e| format!("user sink: {e:?}"))?;
            if u.model.to_bytes() != bytes {
                return Ok(Some("a user sink with the default methods".into()));
            }
        }
        Ok(None)
    });
    match r {
        Ok(Ok(None)) => Ok(()),
        Ok(Ok(Some(which))) => Err(("bytes-depend-on-sink".into(), format!("Stream::write into {which} yields other bytes than into ByteSink"))),
        Ok(Err(e)) => Err(("write-error".into(), e)),
        Err(p) => Err((p.sig(), format!("panic while writing into another sink type: {} at {}", p.msg, p.loc))),
    }
}
