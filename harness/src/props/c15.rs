//! C15 The parser inverts the writer.

use super::common::*;
use crate::core::{Ctx, Outcome};
use crate::enc;
use crate::gen::{CfgOpts, InOpts};
use crate::oracle::refdec::SubT;
use crate::util::catch;
use flacenc::bitsink::ByteSink;
use flacenc::component::{parser, BitRepr, Decode, MetadataBlockData, SubFrame};
use flacenc::error::Verify;
use proptest::prelude::*;
use serde::{Deserialize, Serialize};

#[derive(Clone, Debug, Serialize, Deserialize)]
pub struct Case {
    pub base: StreamCase,
    /// extra metadata blocks (tag, payload length)
    pub meta: Vec<(u8, usize)>,
    /// hand-assembled stream (re-headed frames; variable blocking / changing block sizes) instead of the entry point's
    #[serde(default)]
    pub asm: Option<super::assembled::Asm>,
}

type E<'a> = nom::error::Error<&'a [u8]>;

pub fn check(case: &Case) -> Outcome {
    let b = &case.base;
    let mut out = Outcome::new(b.fp() ^ crate::util::fnv(format!("{:?}", case.meta).as_bytes()));
    let samples = b.inp.samples();
    let encoded = match &case.asm {
        None => encode_case(b, &samples).map(|(s, _)| s),
        Some(a) => {
            out.class(format!("assembled:variable={}:ragged={}", a.variable, a.ragged));
            super::assembled::build(b, a, &samples).map(|(s, szs)| {
                if a.variable && szs.len() >= 3 && szs.windows(2).any(|w| w[0] != w[1]) {
                    out.class("assembled:variable:>=3-frames-of-differing-size");
                }
                s
            })
        }
    };
    let Ok(mut stream) = encoded else {
        out.class("skipped:encode-failed(C01)");
        return out;
    };
    // a caller may overwrite the frame-size bounds after assembling (0, 0 = unknown, or conservative bounds)
    match b.inp.seed % 5 {
        0 => {
            let _ = stream.stream_info_mut().set_frame_sizes(0, 0);
            out.class("frame-sizes-set-by-caller:unknown");
        }
        1 => {
            let (lo, hi) = (stream.stream_info().min_frame_size(), stream.stream_info().max_frame_size());
            if lo <= hi && hi < (1 << 23) {
                let _ = stream.stream_info_mut().set_frame_sizes(lo / 2, hi * 2 + 7);
                out.class("frame-sizes-set-by-caller:conservative-bounds");
            }
        }
        _ => {}
    }
    for (tag, len) in &case.meta {
        if let Ok(m) = MetadataBlockData::new_unknown(*tag, &vec![0xA5u8; *len]) {
            stream.add_metadata_block(m);
            out.class("extra-metadata");
        }
    }
    let limit = enc::sane_bits(samples.len() + 4096, b.inp.bps);
    let bytes = match catch(|| enc::stream_bytes(&stream, limit)) {
        Ok(Ok(x)) => x,
        _ => {
            out.class("skipped:oversized-or-write-failed");
            return out;
        }
    };
    let ctxs = format!("{} block {} entry {:?}", b.inp.describe(), b.cfg.block_size, b.entry);
    // --- stream
    let parsed = match catch(|| parser::stream::<E>(&bytes).map(|(rest, s)| (rest.len(), s)).map_err(|e| format!("{e:?}").chars().take(120).collect::<String>())) {
        Err(p) => {
            out.viol(format!("parser-panic:{}", normalise(&p.sig())), format!("{} at {}; {ctxs}", p.msg, p.loc));
            return out;
        }
        Ok(Err(e)) => {
            out.viol(
                if stream.frame_count() == 0 { "parser-rejects-emitted-stream:no-frames" } else { "parser-rejects-emitted-stream" },
                format!("parser::stream rejects bytes this library emitted ({} bytes, {} frames): {e}; {ctxs}", bytes.len(), stream.frame_count()),
            );
            return out;
        }
        Ok(Ok((rest, s))) => {
            if rest != 0 {
                out.viol("parser-leaves-input", format!("{rest} bytes not consumed; {ctxs}"));
                return out;
            }
            s
        }
    };
    match catch(|| parsed.verify()) {
        Ok(Ok(())) => {}
        Ok(Err(e)) => {
            out.viol("parsed-tree-does-not-verify", format!("{e}; {ctxs}"));
            return out;
        }
        Err(p) => {
            out.viol(format!("verify-panic:{}", normalise(&p.sig())), format!("{} at {}; {ctxs}", p.msg, p.loc));
            return out;
        }
    }
    match catch(|| enc::stream_bytes(&parsed, limit)) {
        Ok(Ok(again)) => {
            if again != bytes {
                let at = again.iter().zip(bytes.iter()).position(|(x, y)| x != y);
                out.viol("reserialisation-differs", format!("{} vs {} bytes, first difference at {:?}; {ctxs}", again.len(), bytes.len(), at));
                return out;
            }
        }
        Ok(Err(e)) => {
            out.viol("reserialisation-fails", format!("{e}; {ctxs}"));
            return out;
        }
        Err(p) => {
            out.viol(format!("reserialisation-panic:{}", normalise(&p.sig())), format!("{} at {}; {ctxs}", p.msg, p.loc));
            return out;
        }
    }
    let decoded = catch(|| {
        let mut v = vec![];
        for n in 0..parsed.frame_count() {
            v.extend(parsed.frame(n).unwrap().decode());
        }
        v
    });
    match decoded {
        Ok(v) => {
            if v != samples {
                out.viol("decode-differs-from-input", format!("{} vs {} samples; {ctxs}", v.len(), samples.len()));
                return out;
            }
        }
        Err(p) => {
            out.viol(format!("decode-panic:{}", normalise(&p.sig())), format!("{} at {}; {ctxs}", p.msg, p.loc));
            return out;
        }
    }
    // Decode::copy_signal into a buffer that is longer than the signal (allowed: "panics when dest doesn't have a
    // sufficient length"), and signal_len
    let over = catch(|| {
        for n in 0..parsed.frame_count() {
            let f = parsed.frame(n).unwrap();
            let want = f.decode();
            if f.signal_len() != want.len() || want.len() != f.block_size() * f.subframe_count() {
                return Some(format!("frame {n}: signal_len {} but decode() gives {} values", f.signal_len(), want.len()));
            }
            let extra = 1 + (n * 7 + want.len()) % 70;
            let mut dest = vec![0x5A5A_5A5Ai32; want.len() + extra];
            f.copy_signal(&mut dest);
            if dest[..want.len()] != want[..] {
                return Some(format!("frame {n}: copy_signal into a buffer {extra} longer than the signal differs from decode()"));
            }
            for c in 0..f.subframe_count() {
                let sf = f.subframe(c).unwrap();
                let w = sf.decode();
                if sf.signal_len() != w.len() || w.len() != f.block_size() {
                    return Some(format!("frame {n} subframe {c}: signal_len {} decode() {} block {}", sf.signal_len(), w.len(), f.block_size()));
                }
                let mut d = vec![-0x1234_567i32; w.len() + extra];
                sf.copy_signal(&mut d);
                if d[..w.len()] != w[..] {
                    return Some(format!("frame {n} subframe {c}: copy_signal into a buffer {extra} longer than the signal differs from decode()"));
                }
                let res = match sf {
                    SubFrame::FixedLpc(x) => Some(x.residual()),
                    SubFrame::Lpc(x) => Some(x.residual()),
                    _ => None,
                };
                if let Some(r) = res {
                    let w = r.decode();
                    let mut d = vec![77i32; w.len() + extra];
                    r.copy_signal(&mut d);
                    if r.signal_len() != w.len() || d[..w.len()] != w[..] {
                        return Some(format!("frame {n} subframe {c}: residual copy_signal into a longer buffer differs from decode()"));
                    }
                }
            }
        }
        None
    });
    match over {
        Ok(None) => {}
        Ok(Some(d)) => {
            out.viol("copy_signal-differs-from-decode", format!("{d}; {ctxs}"));
            return out;
        }
        Err(p) => {
            out.viol(format!("decode-panic:copy_signal:{}", normalise(&p.sig())), format!("{} at {}; {ctxs}", p.msg, p.loc));
            return out;
        }
    }
    // --- differential against the reference decoder's trace
    let tr = crate::oracle::refdec::decode(&bytes, Some(b.cfg.block_size));
    if tr.fatal.is_none() && tr.frames.len() == parsed.frame_count() {
        for (n, ft) in tr.frames.iter().enumerate() {
            let f = parsed.frame(n).unwrap();
            for (c, st) in ft.subframes.iter().enumerate() {
                let same = match (f.subframe(c).unwrap(), &st.kind) {
                    (SubFrame::Constant(x), SubT::Constant { value }) => x.dc_offset() as i64 == *value,
                    (SubFrame::Verbatim(_), SubT::Verbatim) => true,
                    (SubFrame::FixedLpc(x), SubT::Fixed { order, res }) => x.order() == *order && x.residual().partition_order() == res.part_order as usize && (0..res.params.len()).all(|p| x.residual().rice_parameter(p) == res.params[p] as usize),
                    (SubFrame::Lpc(x), SubT::Lpc { order, precision, shift, coefs, res }) => {
                        x.order() == *order
                            && x.parameters().precision() == *precision as usize
                            && x.parameters().shift() as i32 == *shift
                            && (0..*order).all(|j| x.parameters().coefficient(j) == Some(coefs[j] as i16))
                            && x.residual().partition_order() == res.part_order as usize
                    }
                    _ => false,
                };
                if !same {
                    out.viol("parsed-structure-differs-from-reference-reader", format!("frame {n} subframe {c}; {ctxs}"));
                    return out;
                }
            }
        }
    }
    // --- single frames and subframes
    let info = stream.stream_info().clone();
    for n in 0..stream.frame_count() {
        let f = stream.frame(n).unwrap();
        let Ok(Ok(fb)) = catch(|| enc::frame_bytes(f, limit)) else { continue };
        match catch(|| parser::frame::<E>(&info, true)(&fb).map(|(rest, fr)| (rest.len(), fr)).map_err(|e| format!("{e:?}").chars().take(100).collect::<String>())) {
            Ok(Ok((rest, fr))) => {
                let again = catch(|| enc::frame_bytes(&fr, limit));
                if rest != 0 || !matches!(&again, Ok(Ok(x)) if *x == fb) {
                    out.viol("frame-roundtrip-differs", format!("frame {n}: {rest} bytes left or different re-serialisation; {ctxs}"));
                    return out;
                }
                // the same frame and its header with checksum checking switched off
                let nocrc = catch(|| {
                    let a = parser::frame::<E>(&info, false)(&fb).map(|(rest, f2)| rest.is_empty() && enc::frame_bytes(&f2, limit).map_or(false, |x| x == fb)).unwrap_or(false);
                    let hb = {
                        let mut s = ByteSink::new();
                        let _ = f.header().write(&mut s);
                        s.into_inner()
                    };
                    let b = parser::frame_header::<E>(false)(&hb).map(|(rest, _)| rest.is_empty()).unwrap_or(false);
                    let c = parser::frame_header::<E>(true)(&hb).map(|(rest, _)| rest.is_empty()).unwrap_or(false);
                    (a, b, c)
                });
                match nocrc {
                    Ok((true, true, true)) => {}
                    Ok((a, b, c)) => {
                        out.viol("frame-roundtrip-differs:check_crc-variants", format!("frame {n}: parser::frame(check_crc=false) ok: {a}, parser::frame_header(false) ok: {b}, parser::frame_header(true) ok: {c}; {ctxs}"));
                        return out;
                    }
                    Err(p) => {
                        out.viol(format!("frame-parser-panic:{}", normalise(&p.sig())), format!("{} at {}", p.msg, p.loc));
                        return out;
                    }
                }
            }
            Ok(Err(e)) => {
                out.viol("parser-rejects-emitted-frame", format!("frame {n}: {e}; {ctxs}"));
                return out;
            }
            Err(p) => {
                out.viol(format!("frame-parser-panic:{}", normalise(&p.sig())), format!("{} at {}", p.msg, p.loc));
                return out;
            }
        }
        // one parser object used again after calls that failed (truncated input: in the header, inside the first /
        // the last subframe, in front of the CRC; a corrupted CRC): the next call must behave like a fresh parser
        if n < 3 {
            let mut bad = fb.clone();
            let last = bad.len() - 1;
            bad[last] ^= 0x55;
            let bad = bad;
            let r = catch(|| {
                let mut p = parser::frame::<E>(&info, true);
                let mut fails = 0;
                for cut in [3usize, fb.len() / 3, fb.len() / 2, fb.len() - 3, fb.len() - 1] {
                    if cut < fb.len() && p(&fb[..cut]).is_err() {
                        fails += 1;
                    }
                }
                if p(&bad).is_err() {
                    fails += 1;
                }
                let again = p(&fb).map(|(rest, fr)| (rest.len(), enc::frame_bytes(&fr, limit), fr.subframe_count())).map_err(|e| format!("{e:?}").chars().take(80).collect::<String>());
                (fails, again)
            });
            match r {
                Ok((fails, Ok((0, Ok(bytes2), nsub)))) if bytes2 == fb && nsub == f.subframe_count() => {
                    if fails > 0 {
                        out.class("frame-parser-object-reused-after-failed-calls");
                    }
                }
                Ok((fails, other)) => {
                    out.viol("frame-parser-object-reuse-differs", format!("frame {n}: after {fails} failed calls on the same parser object the next call gives {:?}; {ctxs}", other.map(|(rest, b, k)| (rest, b.map(|x| x.len()), k))));
                    return out;
                }
                Err(p) => {
                    out.viol(format!("frame-parser-panic:{}", normalise(&p.sig())), format!("{} at {}", p.msg, p.loc));
                    return out;
                }
            }
        }
        for c in 0..f.subframe_count() {
            let sf = f.subframe(c).unwrap();
            let bps = info.bits_per_sample() + f.header().channel_assignment().bits_per_sample_offset(c);
            let r = catch(|| {
                let mut sink = ByteSink::new();
                sf.write(&mut sink).map_err(|e| format!("{e:?}"))?;
                let nbits = sink.len();
                let sb = sink.into_inner();
                let ((rest, off), parsed_sf) = parser::subframe::<nom::error::Error<(&[u8], usize)>>(f.block_size(), bps)((&sb[..], 0)).map_err(|e| format!("{e:?}").chars().take(100).collect::<String>())?;
                let consumed = (sb.len() - rest.len()) * 8 + off;
                let mut again = ByteSink::new();
                parsed_sf.write(&mut again).map_err(|e| format!("{e:?}"))?;
                Ok::<_, String>((nbits, consumed, sf.count_bits(), again.into_inner() == sb, parsed_sf.decode() == sf.decode()))
            });
            match r {
                Ok(Ok((nbits, consumed, counted, same_bytes, same_signal))) => {
                    if consumed != nbits || counted != nbits || !same_bytes || !same_signal {
                        out.viol("subframe-roundtrip-differs", format!("frame {n} subframe {c}: written {nbits} bits, consumed {consumed}, count_bits {counted}, same bytes {same_bytes}, same signal {same_signal}; {ctxs}"));
                        return out;
                    }
                }
                Ok(Err(e)) => {
                    out.viol("parser-rejects-emitted-subframe", format!("frame {n} subframe {c} ({bps} bits): {e}; {ctxs}"));
                    return out;
                }
                Err(p) => {
                    out.viol(format!("subframe-parser-panic:{}", normalise(&p.sig())), format!("{} at {}", p.msg, p.loc));
                    return out;
                }
            }
        }
    }
    let mut o2 = Outcome::new(0);
    let (predictive, _) = trace_classes(&tr, &mut o2);
    out.classes.extend(o2.classes);
    for f in &tr.frames {
        out.class(format!("bs-code:{}", f.bs_code));
        out.class(format!("sr-code:{}", f.sr_code));
        out.class(format!("ch-code:{}", f.ch_code));
    }
    let header_nontrivial = tr.frames.iter().any(|f| f.bs_code == 6 || f.bs_code == 7 || f.sr_code >= 12 || f.number_len > 1 || f.ch_code >= 8);
    out.nontrivial = (predictive && b.inp.bps != 16) || header_nontrivial;
    out
}

/// One frame (or one header) carrying a given frame number / start-sample number.
#[derive(Clone, Debug, Serialize, Deserialize)]
pub struct NumCase {
    pub number: u64,
    /// false: fixed blocking through `encode_fixed_size_frame` (number < 2^31); true: a variable-blocking header (number < 2^36)
    pub variable: bool,
    pub channels: usize,
    pub bps: usize,
    pub block: usize,
    pub seed: u64,
}

pub fn check_number(c: &NumCase) -> Outcome {
    use flacenc::component::{ChannelAssignment, FrameHeader, FrameOffset, StreamInfo};
    use flacenc::source::{Fill, FrameBuf};
    let mut out = Outcome::new(crate::util::fnv(serde_json::to_string(c).unwrap_or_default().as_bytes()));
    let bits = 64 - c.number.leading_zeros();
    out.class(format!("number-bits:{}", match bits { 0..=7 => "<=7", 8..=11 => "8-11", 12..=16 => "12-16", 17..=21 => "17-21", 22..=26 => "22-26", 27..=31 => "27-31", _ => "32-36" }));
    out.nontrivial = bits > 7;
    if c.variable {
        let Ok(Ok(h)) = catch(|| FrameHeader::new(c.block, ChannelAssignment::Independent(c.channels as u8), c.bps, 44100, FrameOffset::StartSample(c.number))) else {
            out.class("skipped:header-constructor(C18)");
            return out;
        };
        let r = catch(|| {
            let mut sink = ByteSink::new();
            h.write(&mut sink).map_err(|e| format!("{e:?}"))?;
            let b = sink.into_inner();
            let (rest, back) = parser::frame_header::<E>(true)(&b).map_err(|e| format!("parse: {}", format!("{e:?}").chars().take(80).collect::<String>()))?;
            let mut again = ByteSink::new();
            back.write(&mut again).map_err(|e| format!("{e:?}"))?;
            Ok::<_, String>((rest.len(), again.into_inner() == b))
        });
        match r {
            Ok(Ok((0, true))) => {}
            Ok(Ok((rest, same))) => out.viol("header-roundtrip-differs", format!("start sample {}: {rest} bytes left, same bytes {same}", c.number)),
            Ok(Err(e)) => out.viol("parser-rejects-emitted-header", format!("start sample {}: {e}", c.number)),
            Err(p) => out.viol(format!("header-parser-panic:{}", normalise(&p.sig())), format!("{} at {}", p.msg, p.loc)),
        }
        return out;
    }
    let (Ok(info), Ok(mut fb), Ok(vc)) = (StreamInfo::new(44100, c.channels, c.bps), FrameBuf::with_size(c.channels, c.block), enc::verified(&crate::gen::CfgSpec { block_size: c.block.max(32), ..Default::default() })) else {
        out.class("skipped:setup");
        return out;
    };
    let mut rng = crate::util::Sm64::new(c.seed);
    let hi = (1i64 << (c.bps - 1)) - 1;
    let v: Vec<i32> = (0..c.block * c.channels).map(|_| rng.range_i64(-hi / 4, hi / 4) as i32).collect();
    if fb.fill_interleaved(&v).is_err() {
        out.class("skipped:setup");
        return out;
    }
    let Ok(Ok(f)) = catch(|| flacenc::encode_fixed_size_frame(&vc, &fb, c.number as usize, &info)) else {
        out.class("skipped:encode(C17)");
        return out;
    };
    let r = catch(|| {
        let fbts = enc::frame_bytes(&f, 1 << 24)?;
        let (rest, back) = parser::frame::<E>(&info, true)(&fbts).map_err(|e| format!("parse: {}", format!("{e:?}").chars().take(80).collect::<String>()))?;
        let again = enc::frame_bytes(&back, 1 << 24)?;
        Ok::<_, String>((rest.len(), again == fbts, back.decode() == f.decode(), back.verify().is_ok()))
    });
    match r {
        Ok(Ok((0, true, true, true))) => {}
        Ok(Ok((rest, same, audio, ver))) => out.viol("frame-roundtrip-differs", format!("frame number {}: {rest} bytes left, same bytes {same}, same audio {audio}, verifies {ver}", c.number)),
        Ok(Err(e)) => out.viol("parser-rejects-emitted-frame", format!("frame number {}: {e}", c.number)),
        Err(p) => out.viol(format!("frame-parser-panic:{}", normalise(&p.sig())), format!("{} at {}", p.msg, p.loc)),
    }
    out
}

pub fn case_strategy(co: CfgOpts, io: InOpts) -> BoxedStrategy<Case> {
    (stream_case_strategy(co, io, true), proptest::collection::vec((1u8..=126, prop_oneof![Just(0usize), 1usize..=40, Just(300usize)]), 0..=3))
        .prop_map(|(base, meta)| Case { meta: if base_seed_even(&base) { meta } else { vec![] }, base, asm: None })
        .boxed()
}

fn base_seed_even(b: &StreamCase) -> bool {
    b.inp.seed % 3 == 0
}

pub fn run(ctx: &Ctx) {
    ctx.rule(
        "cases = generated streams (all entry points, optional extra metadata blocks); oracle: parser::stream consumes all input, the tree verifies, re-serialises to identical bytes and decodes to the original samples; every frame and every subframe serialised alone round-trips through parser::frame / parser::subframe (consumed bits = count_bits); orders, precision, shift, coefficients, partition orders and Rice parameters agree with the harness' reference reader; family `assembled` re-heads frames of the frame-level entry point through Frame::into_parts / FrameHeader::new / Frame::new into variable-blocking streams whose block sizes change from frame to frame (the only way to obtain such streams from this library) with the same oracle; in two fifths of the cases the caller overwrites the frame-size bounds (unknown, or conservative bounds) before writing; one parser::frame object is called again after calls that failed on truncated / corrupted input; Decode::copy_signal into over-long buffers and signal_len agree with decode() for frames, subframes and residuals; a second family writes one frame (fixed blocking, frame number over the whole 31-bit range) or one header (variable blocking, start sample over the whole 36-bit range), boundary-dense, and parses it back; \
         non-trivial = (predictive subframe and bps != 16) or a frame with a non-trivial header code (explicit block size / sample rate, multi-byte frame number, stereo assignment)",
    );
    let per = ctx.tier.scale(1200, 10);
    let co = CfgOpts { allow_multithread: true, ..Default::default() };
    ctx.search("stream", 16, per, &|| case_strategy(co, InOpts::default()), check);
    // many small frames: multi-byte frame numbers, explicit block sizes and rates
    ctx.search("many-frames", 16, per / 3, &|| {
        case_strategy(CfgOpts { max_block: 40, ..Default::default() }, InOpts { budget: 9000, max_channels: 2, ..Default::default() }).prop_map(|mut c| {
            c.base.inp.len = (c.base.inp.len * 37) % 9000 / c.base.inp.channels;
            c
        })
    }, check);
    // hand-assembled streams: frames of the frame-level entry point re-headed through FrameHeader::new / Frame::new,
    // variable blocking with block sizes that change from frame to frame (and fixed blocking as a control)
    ctx.search("assembled", 16, per / 2, &|| {
        (case_strategy(CfgOpts { max_block: 1200, ..Default::default() }, InOpts { budget: 9000, ..Default::default() }), any::<u64>(), prop_oneof![3 => Just(true), 1 => Just(false)], any::<bool>()).prop_map(|(mut c, seed, variable, ragged)| {
            c.base.entry = Entry::Frames;
            c.base.cfg.multithread = false;
            c.asm = Some(super::assembled::Asm { variable, ragged: ragged && variable, seed, first: 0 });
            c
        })
    }, check);
    // one frame / one header per frame number or start-sample number, over the whole 31- / 36-bit ranges
    ctx.search("frame-number", 16, per * 2, &|| {
        let number = prop_oneof![
            3 => (0u32..=36, -3i64..=3).prop_map(|(b, d)| ((1i128 << b) + d as i128).clamp(0, (1i128 << 36) - 1) as u64),
            3 => any::<u64>().prop_map(|x| x & ((1u64 << 36) - 1)),
            3 => any::<u64>().prop_map(|x| x & ((1u64 << 31) - 1)),
            1 => (0u32..36, any::<u64>()).prop_map(|(b, x)| (1u64 << b) | (x & ((1u64 << b) - 1))),
        ];
        (number, any::<bool>(), 1usize..=3, proptest::sample::select(vec![8usize, 16, 24]), prop_oneof![Just(32usize), Just(192usize), 1usize..=300], any::<u64>())
            .prop_map(|(number, variable, channels, bps, block, seed)| NumCase { number: if variable { number } else { number & ((1u64 << 31) - 1) }, variable, channels, bps, block, seed })
    }, check_number);
    if ctx.tier == crate::core::Tier::Thorough {
        crate::fuzzrun::campaign(ctx, "fz_encode", 8, crate::fuzzrun::runs(30_000), 24_000);
    }
}

pub fn replay(path: &str) -> Result<Outcome, String> {
    let (kind, case) = crate::core::replay_kind(path)?;
    if kind == "frame-number" {
        return Ok(check_number(&serde_json::from_value(case).map_err(|e| e.to_string())?));
    }
    Ok(check(&serde_json::from_value(case).map_err(|e| e.to_string())?))
}
