//! C15 The parser inverts the writer.

use super::common::*;
use crate::core::{Ctx, Outcome};
use crate::enc;
use crate::gen::{CfgOpts, InOpts};
use crate::oracle::refdec::SubT;
use crate::util::catch;
use flacenc::bitsink::ByteSink;
use flacenc::component::{parser, BitRepr, Decode, MetadataBlockData, SubFrame};
use flacenc::error::Verify;
use proptest::prelude::*;
use serde::{Deserialize, Serialize};

#[derive(Clone, Debug, Serialize, Deserialize)]
pub struct Case {
    pub base: StreamCase,
    /// extra metadata blocks (tag, payload length)
    pub meta: Vec<(u8, usize)>,
}

type E<'a> = nom::error::Error<&'a [u8]>;

pub fn check(case: &Case) -> Outcome {
    let b = &case.base;
    let mut out = Outcome::new(b.fp() ^ crate::util::fnv(format!("{:?}", case.meta).as_bytes()));
    let samples = b.inp.samples();
    let Ok((mut stream, _)) = encode_case(b, &samples) else {
        out.class("skipped:encode-failed(C01)");
        return out;
    };
    for (tag, len) in &case.meta {
        if let Ok(m) = MetadataBlockData::new_unknown(*tag, &vec![0xA5u8; *len]) {
            stream.add_metadata_block(m);
            out.class("extra-metadata");
        }
    }
    let limit = enc::sane_bits(samples.len() + 4096, b.inp.bps);
    let bytes = match catch(|| enc::stream_bytes(&stream, limit)) {
        Ok(Ok(x)) => x,
        _ => {
            out.class("skipped:oversized-or-write-failed");
            return out;
        }
    };
    let ctxs = format!("{} block {} entry {:?}", b.inp.describe(), b.cfg.block_size, b.entry);
    // --- stream
    let parsed = match catch(|| parser::stream::<E>(&bytes).map(|(rest, s)| (rest.len(), s)).map_err(|e| format!("{e:?}").chars().take(120).collect::<String>())) {
        Err(p) => {
            out.viol(format!("parser-panic:{}", normalise(&p.sig())), format!("{} at {}; {ctxs}", p.msg, p.loc));
            return out;
        }
        Ok(Err(e)) => {
            out.viol(
                if stream.frame_count() == 0 { "parser-rejects-emitted-stream:no-frames" } else { "parser-rejects-emitted-stream" },
                format!("parser::stream rejects bytes this library emitted ({} bytes, {} frames): {e}; {ctxs}", bytes.len(), stream.frame_count()),
            );
            return out;
        }
        Ok(Ok((rest, s))) => {
            if rest != 0 {
                out.viol("parser-leaves-input", format!("{rest} bytes not consumed; {ctxs}"));
                return out;
            }
            s
        }
    };
    match catch(|| parsed.verify()) {
        Ok(Ok(())) => {}
        Ok(Err(e)) => {
            out.viol("parsed-tree-does-not-verify", format!("{e}; {ctxs}"));
            return out;
        }
        Err(p) => {
            out.viol(format!("verify-panic:{}", normalise(&p.sig())), format!("{} at {}; {ctxs}", p.msg, p.loc));
            return out;
        }
    }
    match catch(|| enc::stream_bytes(&parsed, limit)) {
        Ok(Ok(again)) => {
            if again != bytes {
                let at = again.iter().zip(bytes.iter()).position(|(x, y)| x != y);
                out.viol("reserialisation-differs", format!("{} vs {} bytes, first difference at {:?}; {ctxs}", again.len(), bytes.len(), at));
                return out;
            }
        }
        Ok(Err(e)) => {
            out.viol("reserialisation-fails", format!("{e}; {ctxs}"));
            return out;
        }
        Err(p) => {
            out.viol(format!("reserialisation-panic:{}", normalise(&p.sig())), format!("{} at {}; {ctxs}", p.msg, p.loc));
            return out;
        }
    }
    let decoded = catch(|| {
        let mut v = vec![];
        for n in 0..parsed.frame_count() {
            v.extend(parsed.frame(n).unwrap().decode());
        }
        v
    });
    match decoded {
        Ok(v) => {
            if v != samples {
                out.viol("decode-differs-from-input", format!("{} vs {} samples; {ctxs}", v.len(), samples.len()));
                return out;
            }
        }
        Err(p) => {
            out.viol(format!("decode-panic:{}", normalise(&p.sig())), format!("{} at {}; {ctxs}", p.msg, p.loc));
            return out;
        }
    }
    // --- differential against the reference decoder's trace
    let tr = crate::oracle::refdec::decode(&bytes, Some(b.cfg.block_size));
    if tr.fatal.is_none() && tr.frames.len() == parsed.frame_count() {
        for (n, ft) in tr.frames.iter().enumerate() {
            let f = parsed.frame(n).unwrap();
            for (c, st) in ft.subframes.iter().enumerate() {
                let same = match (f.subframe(c).unwrap(), &st.kind) {
                    (SubFrame::Constant(x), SubT::Constant { value }) => x.dc_offset() as i64 == *value,
                    (SubFrame::Verbatim(_), SubT::Verbatim) => true,
                    (SubFrame::FixedLpc(x), SubT::Fixed { order, res }) => x.order() == *order && x.residual().partition_order() == res.part_order as usize && (0..res.params.len()).all(|p| x.residual().rice_parameter(p) == res.params[p] as usize),
                    (SubFrame::Lpc(x), SubT::Lpc { order, precision, shift, coefs, res }) => {
                        x.order() == *order
                            && x.parameters().precision() == *precision as usize
                            && x.parameters().shift() as i32 == *shift
                            && (0..*order).all(|j| x.parameters().coefficient(j) == Some(coefs[j] as i16))
                            && x.residual().partition_order() == res.part_order as usize
                    }
                    _ => false,
                };
                if !same {
                    out.viol("parsed-structure-differs-from-reference-reader", format!("frame {n} subframe {c}; {ctxs}"));
                    return out;
                }
            }
        }
    }
    // --- single frames and subframes
    let info = stream.stream_info().clone();
    for n in 0..stream.frame_count() {
        let f = stream.frame(n).unwrap();
        let Ok(Ok(fb)) = catch(|| enc::frame_bytes(f, limit)) else { continue };
        match catch(|| parser::frame::<E>(&info, true)(&fb).map(|(rest, fr)| (rest.len(), fr)).map_err(|e| format!("{e:?}").chars().take(100).collect::<String>())) {
            Ok(Ok((rest, fr))) => {
                let again = catch(|| enc::frame_bytes(&fr, limit));
                if rest != 0 || !matches!(&again, Ok(Ok(x)) if *x == fb) {
                    out.viol("frame-roundtrip-differs", format!("frame {n}: {rest} bytes left or different re-serialisation; {ctxs}"));
                    return out;
                }
            }
            Ok(Err(e)) => {
                out.viol("parser-rejects-emitted-frame", format!("frame {n}: {e}; {ctxs}"));
                return out;
            }
            Err(p) => {
                out.viol(format!("frame-parser-panic:{}", normalise(&p.sig())), format!("{} at {}", p.msg, p.loc));
                return out;
            }
        }
        for c in 0..f.subframe_count() {
            let sf = f.subframe(c).unwrap();
            let bps = info.bits_per_sample() + f.header().channel_assignment().bits_per_sample_offset(c);
            let r = catch(|| {
                let mut sink = ByteSink::new();
                sf.write(&mut sink).map_err(|e| format!("{e:?}"))?;
                let nbits = sink.len();
                let sb = sink.into_inner();
                let ((rest, off), parsed_sf) = parser::subframe::<nom::error::Error<(&[u8], usize)>>(f.block_size(), bps)((&sb[..], 0)).map_err(|e| format!("{e:?}").chars().take(100).collect::<String>())?;
                let consumed = (sb.len() - rest.len()) * 8 + off;
                let mut again = ByteSink::new();
                parsed_sf.write(&mut again).map_err(|e| format!("{e:?}"))?;
                Ok::<_, String>((nbits, consumed, sf.count_bits(), again.into_inner() == sb, parsed_sf.decode() == sf.decode()))
            });
            match r {
                Ok(Ok((nbits, consumed, counted, same_bytes, same_signal))) => {
                    if consumed != nbits || counted != nbits || !same_bytes || !same_signal {
                        out.viol("subframe-roundtrip-differs", format!("frame {n} subframe {c}: written {nbits} bits, consumed {consumed}, count_bits {counted}, same bytes {same_bytes}, same signal {same_signal}; {ctxs}"));
                        return out;
                    }
                }
                Ok(Err(e)) => {
                    out.viol("parser-rejects-emitted-subframe", format!("frame {n} subframe {c} ({bps} bits): {e}; {ctxs}"));
                    return out;
                }
                Err(p) => {
                    out.viol(format!("subframe-parser-panic:{}", normalise(&p.sig())), format!("{} at {}", p.msg, p.loc));
                    return out;
                }
            }
        }
    }
    let mut o2 = Outcome::new(0);
    let (predictive, _) = trace_classes(&tr, &mut o2);
    out.classes.extend(o2.classes);
    for f in &tr.frames {
        out.class(format!("bs-code:{}", f.bs_code));
        out.class(format!("sr-code:{}", f.sr_code));
        out.class(format!("ch-code:{}", f.ch_code));
    }
    let header_nontrivial = tr.frames.iter().any(|f| f.bs_code == 6 || f.bs_code == 7 || f.sr_code >= 12 || f.number_len > 1 || f.ch_code >= 8);
    out.nontrivial = (predictive && b.inp.bps != 16) || header_nontrivial;
    out
}

pub fn case_strategy(co: CfgOpts, io: InOpts) -> BoxedStrategy<Case> {
    (stream_case_strategy(co, io, true), proptest::collection::vec((1u8..=126, prop_oneof![Just(0usize), 1usize..=40, Just(300usize)]), 0..=3))
        .prop_map(|(base, meta)| Case { meta: if base_seed_even(&base) { meta } else { vec![] }, base })
        .boxed()
}

fn base_seed_even(b: &StreamCase) -> bool {
    b.inp.seed % 3 == 0
}

pub fn run(ctx: &Ctx) {
    ctx.rule(
        "cases = generated streams (all entry points, optional extra metadata blocks); oracle: parser::stream consumes all input, the tree verifies, re-serialises to identical bytes and decodes to the original samples; every frame and every subframe serialised alone round-trips through parser::frame / parser::subframe (consumed bits = count_bits); orders, precision, shift, coefficients, partition orders and Rice parameters agree with the harness' reference reader; \
         non-trivial = (predictive subframe and bps != 16) or a frame with a non-trivial header code (explicit block size / sample rate, multi-byte frame number, stereo assignment)",
    );
    let per = ctx.tier.scale(1200, 10);
    let co = CfgOpts { allow_multithread: true, ..Default::default() };
    ctx.search("stream", 16, per, &|| case_strategy(co, InOpts::default()), check);
    // many small frames: multi-byte frame numbers, explicit block sizes and rates
    ctx.search("many-frames", 16, per / 3, &|| {
        case_strategy(CfgOpts { max_block: 40, ..Default::default() }, InOpts { budget: 9000, max_channels: 2, ..Default::default() }).prop_map(|mut c| {
            c.base.inp.len = (c.base.inp.len * 37) % 9000 / c.base.inp.channels;
            c
        })
    }, check);
    if ctx.tier == crate::core::Tier::Thorough {
        crate::fuzzrun::campaign(ctx, "fz_encode", 8, crate::fuzzrun::runs(30_000), 24_000);
    }
}

pub fn replay(path: &str) -> Result<Outcome, String> {
    let (_k, case): (String, Case) = crate::core::load_replay(path)?;
    Ok(check(&case))
}
