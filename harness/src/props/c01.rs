//! C01 Lossless round trip through an independent decoder.

use super::common::*;
use crate::core::{Ctx, Outcome, Tier};
use crate::enc;
use crate::gen::{CfgOpts, InOpts};
use crate::oracle::refdec::{self, FrameCtx, SubT};

pub fn check(case: &StreamCase) -> Outcome {
    let mut out = Outcome::new(case.fp());
    out.class(format!("entry:{:?}", case.entry));
    out.class(format!("bps:{}", case.inp.bps));
    out.class(format!("src:{:?}", case.src));
    out.class(format!("ch:{}", case.inp.channels));
    let run = match run_stream(case) {
        Ok(r) => r,
        Err(RunErr::CfgRejected(e)) => {
            out.viol("generator-unsound:config-rejected", format!("a configuration inside the documented ranges was rejected: {e}"));
            return out;
        }
        Err(RunErr::Panic(p)) => {
            out.viol(p.sig(), format!("panic while encoding {}: {} at {}", case.inp.describe(), p.msg, p.loc));
            return out;
        }
        Err(RunErr::EncodeErr(e)) => {
            out.viol("encode-error-on-valid-input", format!("valid input rejected: {e}"));
            return out;
        }
        Err(RunErr::Oversized(_)) => {
            // A frame far beyond raw size is C09's business; it cannot be decoded in reasonable time here.
            out.class("skipped:oversized");
            return out;
        }
        Err(RunErr::WriteErr(e)) => {
            out.viol("write-error", e);
            return out;
        }
    };
    let tr = &run.trace;
    let i = &case.inp;
    if let Some(f) = &tr.fatal {
        out.viol(format!("refdec-fatal:{}", normalise(f)), format!("reference decoder cannot decode the stream: {f}"));
        return out;
    }
    if tr.samples != run.samples {
        let at = tr.samples.iter().zip(run.samples.iter()).position(|(a, b)| a != b);
        out.viol(
            format!("sample-mismatch:entry={:?}", case.entry),
            format!("decoded {} samples vs {} input samples, first difference at interleaved index {:?}", tr.samples.len(), run.samples.len(), at),
        );
        return out;
    }
    if tr.info.rate as usize != i.rate || tr.info.channels as usize != i.channels || tr.info.bps as usize != i.bps || tr.info.total as usize != i.len {
        out.viol("format-mismatch", format!("STREAMINFO {:?} vs input {}", tr.info, i.describe()));
        return out;
    }
    // the bytes must not depend on which sink type receives them
    if let Err((sig, detail)) = other_sinks_agree(&run.stream, &run.bytes, case.inp.seed) {
        out.viol(sig, detail);
        return out;
    }
    // second, third-party decoder
    match enc::claxon_decode(&run.bytes) {
        Ok((s, info)) => {
            if s != run.samples {
                out.viol("claxon-sample-mismatch", "claxon decodes different samples".to_string());
                return out;
            }
            if info.sample_rate as usize != i.rate || info.channels as usize != i.channels || info.bits_per_sample as usize != i.bps {
                out.viol("claxon-format-mismatch", format!("{info:?}"));
                return out;
            }
            out.class("claxon:agrees");
        }
        Err(e) => {
            if tr.violations.is_empty() {
                out.class("claxon:rejects-rule-clean-stream");
            } else {
                out.class("claxon:rejects-rule-violating-stream");
            }
            let _ = e;
        }
    }
    // frame-level: every returned Frame serialised alone decodes to its block
    if let Some(frames) = &run.frames {
        let ctx = FrameCtx { rate: Some(i.rate as u32), bps: Some(i.bps as u32), channels: Some(i.channels), max_block: None };
        let mut t0 = 0usize;
        for (n, f) in frames.iter().enumerate() {
            let fb = match crate::util::catch(|| enc::frame_bytes(f, enc::sane_bits(case.cfg.block_size * i.channels, i.bps))) {
                Ok(Ok(b)) => b,
                Ok(Err(e)) => {
                    out.viol("frame-write-error", e);
                    return out;
                }
                Err(p) => {
                    out.viol(p.sig(), p.msg);
                    return out;
                }
            };
            let mut v = vec![];
            match refdec::decode_frame(&fb, 0, &ctx, n as u64, &mut v) {
                Ok((ft, chans, end)) => {
                    let ok = end == fb.len() && (0..ft.block_size).all(|t| (0..i.channels).all(|c| chans[c][t] == run.samples[(t0 + t) * i.channels + c] as i64));
                    if !ok || ft.number != n as u64 {
                        out.viol("single-frame-mismatch", format!("frame {n} serialised alone does not decode to its block"));
                        return out;
                    }
                    t0 += ft.block_size;
                }
                Err(e) => {
                    out.viol(format!("single-frame-fatal:{}", normalise(&e)), e);
                    return out;
                }
            }
        }
    }
    let (predictive, stereo) = trace_classes(tr, &mut out);
    let short_final = i.len % case.cfg.block_size != 0;
    if short_final {
        out.class("final-block:short");
    }
    // i64-fallback candidates and wide side channels
    for f in &tr.frames {
        for s in &f.subframes {
            if s.bps > i.bps as u32 {
                out.class(format!("side-width:{}", s.bps));
            }
            if let SubT::Lpc { coefs, .. } = &s.kind {
                let sum: i64 = coefs.iter().map(|c| (*c as i64).abs()).sum();
                let maxabs = s.samples.iter().map(|x| x.abs()).max().unwrap_or(0);
                if maxabs.saturating_mul(sum) >= (1i64 << 31) {
                    out.class("lpc:i64-fallback-candidate");
                }
            }
        }
    }
    out.nontrivial = predictive || stereo || i.bps != 16 || short_final;
    out
}

/// Hand-assembled streams (frames re-headed through the public constructors; variable blocking with block sizes that
/// change from frame to frame): the independent decoders must still return the input.
#[derive(Clone, Debug, serde::Serialize, serde::Deserialize)]
pub struct AsmCase {
    pub base: StreamCase,
    pub asm: super::assembled::Asm,
}

pub fn check_assembled(c: &AsmCase) -> Outcome {
    let mut out = Outcome::new(c.base.fp() ^ crate::util::fnv(format!("{:?}", c.asm).as_bytes()));
    out.class(format!("assembled:variable={}:ragged={}", c.asm.variable, c.asm.ragged));
    let samples = c.base.inp.samples();
    let (stream, sizes) = match super::assembled::build(&c.base, &c.asm, &samples) {
        Ok(x) => x,
        Err(RunErr::Panic(p)) => {
            out.viol(p.sig(), format!("panic while assembling a stream from encoded frames: {} at {}", p.msg, p.loc));
            return out;
        }
        Err(RunErr::EncodeErr(e)) if e.starts_with("FrameHeader::new") || e.starts_with("Frame::new") => {
            // a constructor may refuse (e.g. a sample rate without a header code): nothing to decode
            out.class("skipped:constructor-refuses-the-header");
            return out;
        }
        Err(e) => {
            out.viol("assembly-of-valid-frames-refused", format!("{e:?}"));
            return out;
        }
    };
    let bytes = match crate::util::catch(|| enc::stream_bytes(&stream, enc::sane_bits(samples.len() + 4096, c.base.inp.bps))) {
        Ok(Ok(b)) => b,
        Ok(Err(e)) if e.starts_with("oversized") => {
            out.class("skipped:oversized");
            return out;
        }
        Ok(Err(e)) => {
            out.viol("write-error", e);
            return out;
        }
        Err(p) => {
            out.viol(p.sig(), p.msg);
            return out;
        }
    };
    let tr = refdec::decode(&bytes, None);
    if let Some(f) = &tr.fatal {
        out.viol(format!("refdec-fatal:{}", normalise(f)), format!("reference decoder cannot decode the assembled stream (block sizes {:?}): {f}", &sizes[..sizes.len().min(8)]));
        return out;
    }
    if tr.samples != samples || tr.frames.iter().map(|f| f.block_size).collect::<Vec<_>>() != sizes {
        let at = tr.samples.iter().zip(samples.iter()).position(|(a, b)| a != b);
        out.viol("sample-mismatch:assembled", format!("decoded {} samples vs {} input samples, first difference at {:?}; block sizes {:?}", tr.samples.len(), samples.len(), at, &sizes[..sizes.len().min(8)]));
        return out;
    }
    if c.asm.variable {
        // start-sample numbers must be the running sum of the block sizes
        let mut sum = 0u64;
        for f in &tr.frames {
            if !f.variable || f.number != sum {
                out.viol("assembled:start-sample-number-wrong", format!("frame starting at sample {sum} is numbered {} (variable bit {})", f.number, f.variable));
                return out;
            }
            sum += f.block_size as u64;
        }
    }
    match enc::claxon_decode(&bytes) {
        Ok((s, _)) => {
            if s != samples {
                out.viol("claxon-sample-mismatch:assembled", "claxon decodes different samples".to_string());
                return out;
            }
            out.class("claxon:agrees");
        }
        Err(_) => out.class("claxon:rejects-assembled-stream"),
    }
    out.nontrivial = sizes.len() >= 2;
    if c.asm.variable && sizes.len() >= 3 && sizes.windows(2).any(|w| w[0] != w[1]) {
        out.class("assembled:variable:>=3-frames-of-differing-size");
    }
    out
}

/// A source that delivers its samples in packets (a read never crosses a packet boundary, so reads in mid-stream may be
/// shorter than the block size; the `Source` documentation does not forbid that). Whatever frame layout results, the
/// audio must come back complete.
#[derive(Clone, Debug, serde::Serialize, serde::Deserialize)]
pub struct PacketCase {
    pub base: StreamCase,
    pub packet: usize,
    pub hint: bool,
}

pub fn check_packet(c: &PacketCase) -> Outcome {
    let b = &c.base;
    let mut out = Outcome::new(b.fp() ^ (c.packet as u64) << 20 ^ c.hint as u64);
    let samples = b.inp.samples();
    let (ch, bps, rate, block) = (b.inp.channels, b.inp.bps, b.inp.rate, b.cfg.block_size);
    for multi in [false, true] {
        let mut cfg = b.cfg.clone();
        cfg.multithread = multi;
        cfg.workers = if multi { Some(1 + (b.inp.seed % 3) as usize) } else { None };
        let Ok(vcfg) = enc::verified(&cfg) else {
            out.class("skipped:config-rejected");
            return out;
        };
        let r = crate::util::catch(|| {
            let mut src = enc::TestSource::new(&samples, ch, bps, rate, if b.src == enc::SrcKind::Bytes { enc::SrcKind::Bytes } else { enc::SrcKind::Int });
            src.packet = c.packet;
            src.hint = c.hint;
            flacenc::encode_with_fixed_block_size(&vcfg, src, block).map_err(|e| format!("{e:?}")).and_then(|s| enc::stream_bytes(&s, enc::sane_bits(samples.len() + 4096, bps)))
        });
        let mode = if multi { "multi" } else { "single" };
        let bytes = match r {
            Ok(Ok(x)) => x,
            Ok(Err(e)) if e.starts_with("oversized") => {
                out.class("skipped:oversized");
                return out;
            }
            Ok(Err(e)) => {
                out.viol(format!("encode-error-on-valid-input:packet-source:{mode}"), e);
                return out;
            }
            Err(p) => {
                out.viol(p.sig(), format!("panic while encoding from a packet source ({mode}): {} at {}", p.msg, p.loc));
                return out;
            }
        };
        let tr = refdec::decode(&bytes, None);
        if let Some(f) = &tr.fatal {
            out.viol(format!("refdec-fatal:{}", normalise(f)), format!("packet source ({mode}, packets of {}): {f}", c.packet));
            return out;
        }
        if tr.samples != samples || tr.info.total as usize != b.inp.len {
            out.viol(format!("sample-mismatch:packet-source:{mode}"), format!("packets of {} samples, block {block}: decoded {} of {} values, STREAMINFO total {} of {}", c.packet, tr.samples.len(), samples.len(), tr.info.total, b.inp.len));
            return out;
        }
    }
    let frames = enc::frames_of(b.inp.len, block, c.packet);
    out.nontrivial = frames > (b.inp.len + block - 1) / block;
    if out.nontrivial {
        out.class("packet-source:short-reads-in-mid-stream");
    }
    out
}

pub fn run(ctx: &Ctx) {
    ctx.rule(
        "cases = (valid config, valid PCM input descriptor, entry point in {single, multi(real threads), frame-level}, source kind); \
         the stream is also written into MemSink<u64> (behind 0..2 stray bytes) and into a user sink with only the required operations: same bytes; \
         family assembled: frames of the frame-level entry point re-headed through the public constructors into fixed- and variable-blocking streams (block sizes changing from frame to frame), decoded by both independent decoders; \
         family packet-source: sources whose reads in mid-stream are shorter than the block size, single- and multi-thread: the decoded audio and the stated total must be complete (the frame layout is not judged); \
         family blocklen-sweep: every block length 1..=32767 once (one frame of that length; complete enumeration of the block-size code space); \
         non-trivial = at least one FIXED/LPC subframe or a stereo decorrelation mode or bps != 16 or a short final block; distinct by hash of the whole case",
    );
    ctx.assume("refdec (harness' own RFC 9639 reader) is cross-checked against claxon on every case");
    ctx.assume("multi-thread entry uses real OS threads here; schedules are explored in C05/C06");
    let per = ctx.tier.scale(400, 15);
    let co = CfgOpts { allow_multithread: true, ..Default::default() };
    ctx.search("stream", 16, per, &|| stream_case_strategy(co, InOpts::default(), true), check);
    // re-weighted: wide samples, heavy/bursty content
    let io = InOpts { heavy: true, wide_bias: true, ..Default::default() };
    ctx.search("stream-heavy", 16, per / 2, &|| stream_case_strategy(co, io, true), check);
    // LPC stress: ill-conditioned predictors (i64 fallback, coefficient clamps, huge residuals)
    ctx.search("lpc-stress", 16, per, &|| lpc_stress_case_strategy(), check);
    {
        use proptest::prelude::*;
        ctx.search("assembled", 16, per / 2, &|| {
            (stream_case_strategy(CfgOpts { max_block: 1200, ..Default::default() }, InOpts { budget: 9000, ..Default::default() }, false), any::<u64>(), prop_oneof![3 => Just(true), 1 => Just(false)], any::<bool>()).prop_map(|(mut base, seed, variable, ragged)| {
                base.entry = Entry::Frames;
                base.cfg.multithread = false;
                AsmCase { base, asm: super::assembled::Asm { variable, ragged: ragged && variable, seed, first: 0 } }
            })
        }, check_assembled);
    }
    {
        use proptest::prelude::*;
        ctx.search("packet-source", 16, per / 3, &|| {
            (stream_case_strategy(CfgOpts { max_block: 600, ..Default::default() }, InOpts { budget: 6000, ..Default::default() }, false), 1usize..=900, any::<bool>()).prop_map(|(base, packet, hint)| PacketCase { base, packet, hint })
        }, check_packet);
    }
    // every block length 1..=32767 once: one frame of that many samples (the block-size code table is finite and has
    // special members; a sampled block size hits one given member with probability 3e-5)
    {
        use crate::gen::{CfgSpec, ChanSpec, InputSpec, Seg};
        ctx.enumerate("blocklen-sweep", 16, 32767, |k| {
            let n = k as usize + 1;
            let mut cfg = CfgSpec::default();
            cfg.block_size = n.max(32);
            cfg.multithread = false;
            let entry = if n % 2 == 0 { Entry::Single } else { Entry::Frames };
            let class = [1u8, 0, 4][n % 3];
            let inp = InputSpec { channels: 1 + (n % 5 == 0) as usize, bps: [8usize, 16, 24][n % 3], rate: 44100, len: n, chans: vec![ChanSpec { segs: vec![Seg { class, amp: 1, p: 3 }] }; 2], rel: 0, seed: n as u64, explicit: None };
            StreamCase { cfg, inp, entry, src: crate::enc::SrcKind::Mem }
        }, check);
    }
    if ctx.tier == Tier::Thorough {
        let io = InOpts { budget: 120_000, ..Default::default() };
        ctx.search("stream-long", 16, 300, &|| stream_case_strategy(co, io, true), check);
        crate::fuzzrun::campaign(ctx, "fz_encode", 8, crate::fuzzrun::runs(60_000), 24_000);
    }
}

pub fn replay(path: &str) -> Result<Outcome, String> {
    let (kind, case) = crate::core::replay_kind(path)?;
    if kind == "packet-source" {
        return Ok(check_packet(&serde_json::from_value(case).map_err(|e| e.to_string())?));
    }
    if kind == "assembled" {
        return Ok(check_assembled(&serde_json::from_value(case).map_err(|e| e.to_string())?));
    }
    Ok(check(&serde_json::from_value(case).map_err(|e| e.to_string())?))
}
