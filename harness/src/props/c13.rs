//! C13 Rice partitioning chosen by the encoder is cost-optimal.

use super::common::*;
use crate::core::{Ctx, Outcome};
use crate::gen::{CfgOpts, InOpts};
use crate::oracle::rice;
use flacenc::component::{Residual, SubFrame};
use proptest::prelude::*;
use serde::{Deserialize, Serialize};

/// Direct call of the public residual encoder `coding::encode_residual` with a generated error signal.
#[derive(Debug, Clone, Serialize, Deserialize)]
pub struct DirectCase {
    pub block: usize,
    pub warmup: usize,
    pub max_p: usize,
    /// the error signal is made of 2^seg_log2 segments (shifted by `shift` samples so that they need not coincide with partitions)
    pub seg_log2: u8,
    pub shift: u16,
    /// log2 scale per segment (cycled)
    pub scales: Vec<u8>,
    /// 0 uniform, 1 two-sided geometric, 2 magnitudes exactly 2^s-1 / 2^s (parameter ties), 3 sparse outliers on zeros, 4 one outlier only
    pub model: u8,
    pub seed: u64,
}

impl DirectCase {
    pub fn errors(&self) -> Vec<i32> {
        let mut r = crate::util::Sm64::new(self.seed);
        let nseg = 1usize << self.seg_log2;
        let seglen = (self.block / nseg).max(1);
        let lim = i32::MAX as i64;
        let one = r.below(self.block as u64) as usize;
        (0..self.block)
            .map(|t| {
                if t < self.warmup {
                    return 0;
                }
                let seg = ((t + self.shift as usize) / seglen) % self.scales.len().max(1);
                let s = *self.scales.get(seg).unwrap_or(&0) as u32;
                let m: i64 = 1i64 << s.min(31);
                let u = r.next();
                let mag = match self.model {
                    0 => (u >> 8) as i64 % (m + 1),
                    1 => {
                        // geometric-like: m * -ln(x)
                        let x = ((u >> 11) as f64 + 1.0) / (1u64 << 53) as f64;
                        ((m as f64) * -x.ln() * 0.7) as i64
                    }
                    2 => m - ((u >> 9) & 1) as i64,
                    3 => {
                        if (u >> 12) % 37 == 0 {
                            m
                        } else {
                            ((u >> 20) & 1) as i64
                        }
                    }
                    _ => {
                        if t == one.max(self.warmup) {
                            m
                        } else {
                            0
                        }
                    }
                };
                let mag = mag.clamp(0, lim);
                (if u & 1 == 1 { -mag } else { mag }) as i32
            })
            .collect()
    }
    fn fp(&self) -> u64 {
        crate::util::fnv_str(&format!("{self:?}"))
    }
}

pub fn direct_strategy() -> BoxedStrategy<DirectCase> {
    let block = prop_oneof![
        3 => 64usize..=600,
        2 => (1usize..=511).prop_map(|k| k * 64),
        2 => proptest::sample::select(vec![64usize, 128, 256, 512, 1024, 2048, 4096, 8192, 16384, 192, 384, 576, 768, 1152, 1536, 2304, 4608, 9216, 18432, 32704, 32767, 32640, 24576, 12288]),
        1 => 64usize..=32767,
    ];
    let maxp = prop_oneof![3 => Just(14usize), 2 => 0usize..=14, 1 => 0usize..=3];
    (block, 0usize..=32, maxp, 0u8..=7, any::<u16>(), proptest::collection::vec(0u8..=30, 1..=9), 0u8..=4, any::<u64>(), any::<bool>())
        .prop_map(|(block, warmup, max_p, seg_log2, shift, mut scales, model, seed, cap)| {
            if cap {
                // keep most minima below 2^28: a sample costs about 2^(s - max_p) bits
                for s in scales.iter_mut() {
                    *s = (*s).min(max_p as u8 + 10);
                }
            }
            DirectCase { block, warmup: warmup.min(block), max_p, seg_log2, shift: shift % block as u16, scales, model, seed }
        })
        .boxed()
}

pub fn check_direct(case: &DirectCase) -> Outcome {
    let mut out = Outcome::new(case.fp());
    out.class(format!("direct:maxp:{}", case.max_p));
    out.class(format!("direct:model:{}", case.model));
    let errors = case.errors();
    let mut cfg = flacenc::config::Prc::default();
    cfg.max_parameter = case.max_p;
    let res = match crate::util::catch(|| flacenc::verif_access::encode_residual(&cfg, &errors, case.warmup)) {
        Ok(r) => r,
        Err(p) => {
            // a panic of the residual encoder on an in-range error signal: the residual cannot be judged;
            // reported, because "the encoder emits" nothing that could be optimal
            out.viol(format!("encode_residual-panic:{}", p.sig()), format!("block {} warmup {} max_p {}: {}", case.block, case.warmup, case.max_p, p.msg));
            return out;
        }
    };
    let (bits, vals) = emitted_bits(&res, case.block, case.warmup);
    if vals.iter().zip(&errors[case.warmup..]).any(|(a, b)| *a != *b as i64) {
        out.viol("direct:residual-values-differ", format!("block {} warmup {}: the Residual does not hold the error signal it was given", case.block, case.warmup));
        return out;
    }
    let n = 1usize << res.partition_order();
    if (0..n).any(|p| res.rice_parameter(p) > case.max_p) {
        out.viol("direct:parameter-above-configured-maximum", format!("block {} warmup {} max_p {}", case.block, case.warmup, case.max_p));
        return out;
    }
    let Some(opt) = rice::optimum(&vals, case.block, case.warmup, case.max_p) else {
        out.class("skipped:no-search-space");
        return out;
    };
    if rice::finest_order(case.block, case.warmup).map_or(false, |f| res.partition_order() > f) || case.block % n != 0 {
        out.viol("direct:partition-order-outside-search-space", format!("block {} warmup {} order {}", case.block, case.warmup, res.partition_order()));
        return out;
    }
    out.class(format!("direct:orders:{}", opt.orders.min(10)));
    if opt.saturating {
        out.class("direct:finest-cost-saturates-2^28");
    }
    if opt.bits >= (1 << 28) {
        out.class("skipped:optimum>=2^28");
        return out;
    }
    // "every residual the encoder emits": a FIXED/LPC subframe is only emitted when it is smaller than the verbatim
    // subframe (8 + width x block bits, width <= 25 for a 24-bit side channel). A residual above that bound is never
    // emitted whatever the rest of the subframe costs, so its parameters are outside the property (this is where a
    // per-partition cost >= 2^32 wraps in the u32 cost tables; the encoder then falls back to verbatim).
    if bits > 25 * case.block as u64 + 8 {
        out.class("direct:skipped:not-emittable(>verbatim)");
        return out;
    }
    if bits > opt.bits {
        let params: Vec<usize> = (0..n.min(8)).map(|p| res.rice_parameter(p)).collect();
        out.viol(
            "rice-nonoptimal:direct",
            format!(
                "encode_residual: emitted {bits} bits (partition order {}, parameters {:?}..) but the search space has {} bits (order {}); block {}, warm-up {}, max_parameter {}",
                res.partition_order(), params, opt.bits, opt.order, case.block, case.warmup, case.max_p
            ),
        );
        return out;
    }
    if opt.orders >= 2 && (opt.order > 0 || opt.varied) {
        out.nontrivial = true;
        out.class("direct:optimum:multi-partition");
    }
    if opt.order as usize + 1 == opt.orders && opt.orders > 1 {
        out.class("direct:optimum-at-finest-order");
    }
    if opt.bits >= (1 << 24) {
        out.class("direct:optimum>=2^24");
    }
    out
}

/// Coded size of a residual computed from its parameters and values (u64 arithmetic, independent of count_bits).
fn emitted_bits(r: &Residual, block: usize, order: usize) -> (u64, Vec<i64>) {
    let po = r.partition_order();
    let nparts = 1usize << po;
    let plen = block >> po;
    let mut bits = 6u64;
    let mut vals = Vec::with_capacity(block - order);
    for p in 0..nparts {
        let k = r.rice_parameter(p) as u64;
        bits += 4;
        let a = if p == 0 { order } else { p * plen };
        let b = (p + 1) * plen;
        for t in a..b {
            let e = r.residual(t) as i64;
            vals.push(e);
            bits += (rice::zigzag(e) >> k) + 1 + k;
        }
    }
    (bits, vals)
}

pub fn check(case: &StreamCase) -> Outcome {
    let mut out = Outcome::new(case.fp());
    out.class(format!("bps:{}", case.inp.bps));
    out.class(format!("maxp:{}", case.cfg.max_parameter));
    let samples = case.inp.samples();
    let (stream, _frames) = match encode_case(case, &samples) {
        Ok(x) => x,
        Err(e) => {
            // panics / errors on valid input are C01's (and C07's) business, not this property's
            out.class(format!("skipped:{}", match e { RunErr::Panic(_) => "encode-panic", _ => "encode-error" }));
            return out;
        }
    };
    let max_p = case.cfg.max_parameter;
    let mut residuals = 0;
    for n in 0..stream.frame_count() {
        let f = stream.frame(n).unwrap();
        let block = f.block_size();
        for c in 0..f.subframe_count() {
            let (order, res) = match f.subframe(c).unwrap() {
                SubFrame::FixedLpc(x) => (x.order(), x.residual()),
                SubFrame::Lpc(x) => (x.order(), x.residual()),
                _ => continue,
            };
            residuals += 1;
            let (bits, vals) = emitted_bits(res, block, order);
            let Some(opt) = rice::optimum(&vals, block, order, max_p) else {
                out.viol("residual-outside-search-space", format!("frame {n} ch {c}: block {block} order {order} has no admissible partitioning but a residual was emitted"));
                return out;
            };
            out.class(format!("orders:{}", opt.orders.min(10)));
            if opt.saturating {
                out.class("finest-cost-saturates-2^28");
            }
            if opt.bits >= (1 << 28) {
                out.class("skipped:optimum>=2^28");
                continue;
            }
            if bits > opt.bits {
                let params: Vec<usize> = (0..(1usize << res.partition_order()).min(8)).map(|p| res.rice_parameter(p)).collect();
                out.viol(
                    if bits > 16 * opt.bits + 4096 { "rice-nonoptimal:gross" } else { "rice-nonoptimal" },
                    format!(
                        "frame {n} ch {c}: emitted {bits} bits (partition order {}, parameters {:?}..) but the search space has {} bits (order {}); block {block}, predictor order {order}, max_parameter {max_p}; input {}",
                        res.partition_order(),
                        params,
                        opt.bits,
                        opt.order,
                        case.inp.describe()
                    ),
                );
                return out;
            }
            if opt.orders >= 2 && (opt.order > 0 || opt.varied) {
                out.nontrivial = true;
                out.class("optimum:multi-partition");
            }
            if vals.iter().any(|e| e.abs() > (1 << 15)) {
                out.class("residual>2^15");
            }
        }
    }
    if residuals == 0 {
        out.class("no-residual");
    }
    out
}

pub fn run(ctx: &Ctx) {
    ctx.rule(
        "cases = streams from (valid config, input weighted to 20/24-bit content, bursts, block sizes with many factors of two); every FIXED/LPC residual's coded size (from its parameters and values) \
         must equal the brute-force minimum over partition orders 0..=finest and parameters 0..=max_parameter when that minimum < 2^28; \
         non-trivial = search space with >= 2 partition orders whose optimum is not (order 0, one parameter). \
         Family `direct` calls the public residual encoder coding::encode_residual on generated error signals (block 64..=32767, warm-up 0..=32, max_parameter 0..=14, \
         segments of differing scale 2^0..2^30 that need not coincide with partitions, uniform / geometric / tie / sparse / single-outlier models) with the same oracle, \
         plus: the Residual holds exactly the given errors, no parameter above the configured maximum, partition order inside the search space",
    );
    let per = ctx.tier.scale(3000, 8);
    let co = CfgOpts { allow_multithread: false, max_block: 8192, ..Default::default() };
    let io = InOpts { heavy: true, wide_bias: true, ..Default::default() };
    ctx.search("heavy-pow2", 16, per, &|| stream_case_strategy(co, io, false).prop_map(pow2), check);
    ctx.search("general", 16, per, &|| stream_case_strategy(co, InOpts::default(), false), check);
    ctx.search("direct", 16, ctx.tier.scale(6000, 10), &direct_strategy, check_direct);
    if ctx.tier == crate::core::Tier::Thorough {
        crate::fuzzrun::campaign(ctx, "fz_encode", 8, crate::fuzzrun::runs(30_000), 24_000);
    }
}

/// Half of the cases get a block size with many factors of two (partition orders up to 7).
fn pow2(mut c: StreamCase) -> StreamCase {
    if c.inp.seed % 2 == 0 {
        let b = [256usize, 512, 1024, 2048, 4096, 8192, 1536, 768][(c.inp.seed / 2 % 8) as usize];
        let frames = (c.inp.len / c.cfg.block_size.max(1)).clamp(1, 3);
        c.cfg.block_size = b;
        c.inp.len = (b * frames + c.inp.len % 40).min(24_000 / c.inp.channels.max(1) + b);
    }
    c
}

pub fn replay(path: &str) -> Result<Outcome, String> {
    let (kind, case) = crate::core::replay_kind(path)?;
    match kind.as_str() {
        "direct" => Ok(check_direct(&serde_json::from_value(case).map_err(|e| e.to_string())?)),
        _ => Ok(check(&serde_json::from_value(case).map_err(|e| e.to_string())?)),
    }
}
