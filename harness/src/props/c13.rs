//! C13 Rice partitioning chosen by the encoder is cost-optimal.

use super::common::*;
use crate::core::{Ctx, Outcome};
use crate::gen::{CfgOpts, InOpts};
use crate::oracle::rice;
use flacenc::component::{Residual, SubFrame};
use proptest::strategy::Strategy;

/// Coded size of a residual computed from its parameters and values (u64 arithmetic, independent of count_bits).
fn emitted_bits(r: &Residual, block: usize, order: usize) -> (u64, Vec<i64>) {
    let po = r.partition_order();
    let nparts = 1usize << po;
    let plen = block >> po;
    let mut bits = 6u64;
    let mut vals = Vec::with_capacity(block - order);
    for p in 0..nparts {
        let k = r.rice_parameter(p) as u64;
        bits += 4;
        let a = if p == 0 { order } else { p * plen };
        let b = (p + 1) * plen;
        for t in a..b {
            let e = r.residual(t) as i64;
            vals.push(e);
            bits += (rice::zigzag(e) >> k) + 1 + k;
        }
    }
    (bits, vals)
}

pub fn check(case: &StreamCase) -> Outcome {
    let mut out = Outcome::new(case.fp());
    out.class(format!("bps:{}", case.inp.bps));
    out.class(format!("maxp:{}", case.cfg.max_parameter));
    let samples = case.inp.samples();
    let (stream, _frames) = match encode_case(case, &samples) {
        Ok(x) => x,
        Err(e) => {
            // panics / errors on valid input are C01's (and C07's) business, not this property's
            out.class(format!("skipped:{}", match e { RunErr::Panic(_) => "encode-panic", _ => "encode-error" }));
            return out;
        }
    };
    let max_p = case.cfg.max_parameter;
    let mut residuals = 0;
    for n in 0..stream.frame_count() {
        let f = stream.frame(n).unwrap();
        let block = f.block_size();
        for c in 0..f.subframe_count() {
            let (order, res) = match f.subframe(c).unwrap() {
                SubFrame::FixedLpc(x) => (x.order(), x.residual()),
                SubFrame::Lpc(x) => (x.order(), x.residual()),
                _ => continue,
            };
            residuals += 1;
            let (bits, vals) = emitted_bits(res, block, order);
            let Some(opt) = rice::optimum(&vals, block, order, max_p) else {
                out.viol("residual-outside-search-space", format!("frame {n} ch {c}: block {block} order {order} has no admissible partitioning but a residual was emitted"));
                return out;
            };
            out.class(format!("orders:{}", opt.orders.min(10)));
            if opt.saturating {
                out.class("finest-cost-saturates-2^28");
            }
            if opt.bits >= (1 << 28) {
                out.class("skipped:optimum>=2^28");
                continue;
            }
            if bits > opt.bits {
                let params: Vec<usize> = (0..(1usize << res.partition_order()).min(8)).map(|p| res.rice_parameter(p)).collect();
                out.viol(
                    if bits > 16 * opt.bits + 4096 { "rice-nonoptimal:gross" } else { "rice-nonoptimal" },
                    format!(
                        "frame {n} ch {c}: emitted {bits} bits (partition order {}, parameters {:?}..) but the search space has {} bits (order {}); block {block}, predictor order {order}, max_parameter {max_p}; input {}",
                        res.partition_order(),
                        params,
                        opt.bits,
                        opt.order,
                        case.inp.describe()
                    ),
                );
                return out;
            }
            if opt.orders >= 2 && (opt.order > 0 || opt.varied) {
                out.nontrivial = true;
                out.class("optimum:multi-partition");
            }
            if vals.iter().any(|e| e.abs() > (1 << 15)) {
                out.class("residual>2^15");
            }
        }
    }
    if residuals == 0 {
        out.class("no-residual");
    }
    out
}

pub fn run(ctx: &Ctx) {
    ctx.rule(
        "cases = streams from (valid config, input weighted to 20/24-bit content, bursts, block sizes with many factors of two); every FIXED/LPC residual's coded size (from its parameters and values) \
         must equal the brute-force minimum over partition orders 0..=finest and parameters 0..=max_parameter when that minimum < 2^28; \
         non-trivial = search space with >= 2 partition orders whose optimum is not (order 0, one parameter)",
    );
    let per = ctx.tier.scale(3000, 8);
    let co = CfgOpts { allow_multithread: false, max_block: 8192, ..Default::default() };
    let io = InOpts { heavy: true, wide_bias: true, ..Default::default() };
    ctx.search("heavy-pow2", 16, per, &|| stream_case_strategy(co, io, false).prop_map(pow2), check);
    ctx.search("general", 16, per, &|| stream_case_strategy(co, InOpts::default(), false), check);
    if ctx.tier == crate::core::Tier::Thorough {
        crate::fuzzrun::campaign(ctx, "fz_encode", 8, crate::fuzzrun::runs(30_000), 24_000);
    }
}

/// Half of the cases get a block size with many factors of two (partition orders up to 7).
fn pow2(mut c: StreamCase) -> StreamCase {
    if c.inp.seed % 2 == 0 {
        let b = [256usize, 512, 1024, 2048, 4096, 8192, 1536, 768][(c.inp.seed / 2 % 8) as usize];
        let frames = (c.inp.len / c.cfg.block_size.max(1)).clamp(1, 3);
        c.cfg.block_size = b;
        c.inp.len = (b * frames + c.inp.len % 40).min(24_000 / c.inp.channels.max(1) + b);
    }
    c
}

pub fn replay(path: &str) -> Result<Outcome, String> {
    let (_k, case): (String, StreamCase) = crate::core::load_replay(path)?;
    Ok(check(&case))
}
