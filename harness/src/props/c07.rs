//! C07 Configuration verification is exact and verified configurations never panic.

use super::common::*;
use crate::core::{Ctx, Outcome, Tier};
use crate::enc::{self, SrcKind};
use crate::gen::{self, CfgOpts, CfgSpec, ChanSpec, InputSpec, Seg};
use crate::util::{catch, fnv};
use flacenc::error::Verify;
use proptest::prelude::*;
use std::sync::OnceLock;

const EXPERIMENTAL: bool = cfg!(feature = "experimental");

/// Boundary values per field: index -> (field index, value index).
fn field_values() -> Vec<Vec<Box<dyn Fn(&mut CfgSpec) + Send + Sync>>> {
    macro_rules! setters {
        ($f:ident, [$($v:expr),* $(,)?]) => {
            vec![$(Box::new(move |c: &mut CfgSpec| c.$f = $v) as Box<dyn Fn(&mut CfgSpec) + Send + Sync>),*]
        };
    }
    let m = usize::MAX;
    vec![
        setters!(block_size, [0, 1, 31, 32, 33, 4096, 32767, 32768, 65535, 65536, (1usize << 32) + 64, m]),
        setters!(multithread, [false, true]),
        setters!(workers, [None, Some(1), Some(2), Some(33), Some(m), Some(m / 2 + 1)]),
        setters!(ls, [false, true]),
        setters!(rs, [false, true]),
        setters!(ms, [false, true]),
        setters!(use_constant, [false, true]),
        setters!(use_fixed, [false, true]),
        setters!(use_lpc, [false, true]),
        setters!(fixed_max_order, [0, 1, 4, 5, 255, 256 + 4, m]),
        setters!(order_sel, [None, Some(0), Some(1), Some(16), Some(64), Some(65), Some(256 + 16), Some(m)]),
        setters!(lpc_order, [0, 1, 24, 25, 32, 33, 256 + 10, m]),
        setters!(quant_precision, [0, 1, 15, 16, 256 + 15, m]),
        setters!(use_direct_mse, [false, true]),
        setters!(mae_steps, [0, 1, m]),
        setters!(
            window,
            [
                None,
                Some(0.0f32.to_bits()),
                Some((-0.0f32).to_bits()),
                Some(1.0f32.to_bits()),
                Some(1.0f32.to_bits() + 1),
                Some((-f32::from_bits(1)).to_bits()),
                Some(f32::NAN.to_bits()),
                Some(f32::INFINITY.to_bits()),
                Some(f32::NEG_INFINITY.to_bits()),
                Some(0.5f32.to_bits()),
                Some(f32::from_bits(1).to_bits()),
                Some(2.0f32.to_bits()),
                Some(0xFFC0_0001u32)
            ]
        ),
        setters!(max_parameter, [0, 1, 14, 15, 16, 255, 256 + 14, m]),
    ]
}

fn probe_corpus() -> &'static Vec<(InputSpec, Vec<i32>)> {
    static C: OnceLock<Vec<(InputSpec, Vec<i32>)>> = OnceLock::new();
    C.get_or_init(|| {
        let mut v = vec![];
        let mut i = 0u64;
        for bps in gen::WIDTHS {
            for channels in [1usize, 2, 5] {
                for len in [50usize, 700] {
                    if v.len() >= 24 && !(bps == 24) {
                        continue;
                    }
                    i += 1;
                    let cls = [4u8, 2, 10, 5, 8, 14][(i % 6) as usize];
                    let inp = InputSpec {
                        channels,
                        bps,
                        rate: [44100, 8000, 96000, 12345][(i % 4) as usize],
                        len,
                        chans: (0..channels).map(|c| ChanSpec { segs: vec![Seg { class: cls, amp: (2 + (i + c as u64) % 3) as u8, p: (i * 977) as u32 }] }).collect(),
                        rel: (i % 9) as u8,
                        seed: i,
                        explicit: None,
                    };
                    let s = inp.samples();
                    v.push((inp, s));
                }
            }
        }
        // sparse inputs: a single click within the first samples of silence, audio that stops a few samples
        // into the block, one sample, alternating full scale (degenerate autocorrelation statistics)
        for (k, (bps, channels, len)) in [(16usize, 1usize, 700usize), (24, 2, 700), (8, 1, 100), (16, 2, 64), (24, 1, 1), (16, 1, 2)].into_iter().enumerate() {
            for shape in 0..4u8 {
                let hi = (1i32 << (bps - 1)) - 1;
                let mut ch0 = vec![0i32; len];
                match shape {
                    0 => ch0[(1 + k).min(len - 1)] = hi / 3,
                    1 => {
                        for t in 0..len.min(5 + k) {
                            ch0[t] = ((t as i32 * 7919) % 200) - 100;
                        }
                    }
                    2 => {
                        for t in 0..len {
                            ch0[t] = if t % 2 == 0 { hi } else { -hi - 1 };
                        }
                    }
                    _ => ch0[len - 1] = -hi,
                }
                let mut s = vec![0i32; len * channels];
                for t in 0..len {
                    for c in 0..channels {
                        s[t * channels + c] = if c == 0 { ch0[t] } else { ch0[(t + c) % len] / 2 };
                    }
                }
                let inp = InputSpec { channels, bps, rate: 44100, len, chans: vec![ChanSpec { segs: vec![] }; channels], rel: 0, seed: 9000 + k as u64 * 10 + shape as u64, explicit: Some(s.clone()) };
                v.push((inp, s));
            }
        }
        v
    })
}

fn encode_probe(cfg: &CfgSpec, out: &mut Outcome) {
    let Ok(vcfg) = enc::verified(cfg) else { return };
    if cfg.mae_steps > 8 {
        // experimental builds accept any number of optimisation steps; the probe would simply take that long
        out.class("probe-skipped:many-mae-optimization-steps(experimental)");
        return;
    }
    let corpus = probe_corpus();
    // a valid block size for the entry point: the configured one
    let block = cfg.block_size;
    let n = if cfg.multithread { 4 } else { corpus.len() };
    for (k, (inp, samples)) in corpus.iter().enumerate().take(n) {
        let mut c1 = cfg.clone();
        if cfg.multithread {
            // pre-flight against gigabyte frames (reported under C09)
            c1.multithread = false;
            if let Ok(v1) = enc::verified(&c1) {
                if let Ok(Ok(s)) = catch(|| enc::encode_stream(&v1, samples, inp.channels, inp.bps, inp.rate, block, SrcKind::Mem)) {
                    use flacenc::component::BitRepr;
                    if s.count_bits() > enc::sane_bits(samples.len(), inp.bps) {
                        continue;
                    }
                }
            }
        }
        let r = catch(|| enc::encode_stream(&vcfg, samples, inp.channels, inp.bps, inp.rate, block, if k % 2 == 0 { SrcKind::Mem } else { SrcKind::Bytes }));
        match r {
            Err(p) => {
                out.viol(format!("accepted-config-panics:{}", normalise(&p.sig())), format!("configuration {cfg:?} was accepted by verification but encoding probe input #{k} ({}) panicked: {} at {}", inp.describe(), p.msg, p.loc));
                return;
            }
            Ok(Err(e)) => {
                out.viol("accepted-config-fails-to-encode", format!("probe #{k} ({}): {e}; configuration {cfg:?}", inp.describe()));
                return;
            }
            Ok(Ok(stream)) => {
                let limit = enc::sane_bits(samples.len(), inp.bps);
                match catch(|| enc::stream_bytes(&stream, limit)) {
                    Ok(Ok(bytes)) => {
                        let tr = crate::oracle::refdec::decode(&bytes, Some(block));
                        if tr.fatal.is_some() || tr.samples != *samples {
                            out.viol("accepted-config-not-lossless", format!("probe #{k} ({}): decoded audio differs ({:?}); configuration {cfg:?}", inp.describe(), tr.fatal));
                            return;
                        }
                    }
                    Ok(Err(_)) => out.class("probe:oversized(C09)"),
                    Err(p) => {
                        out.viol(format!("accepted-config-panics-on-write:{}", normalise(&p.sig())), format!("{} at {}", p.msg, p.loc));
                        return;
                    }
                }
            }
        }
    }
    out.class("probe-corpus-encoded");
}

pub fn check(cfg: &CfgSpec) -> Outcome {
    let mut out = Outcome::new(fnv(serde_json::to_string(cfg).unwrap_or_default().as_bytes()));
    let want = cfg.in_documented_range(EXPERIMENTAL);
    let got = catch(|| cfg.to_encoder().verify());
    match (&want, got) {
        (_, Err(p)) => {
            out.viol(format!("verify-panics:{}", normalise(&p.sig())), format!("{} at {}; {cfg:?}", p.msg, p.loc));
        }
        (Ok(()), Ok(Ok(()))) => {
            out.class("accepted");
            encode_probe(cfg, &mut out);
        }
        (Err(f), Ok(Ok(()))) => {
            out.viol(format!("accepts-out-of-range:{f}"), format!("field `{f}` is outside its documented range but verification accepts {cfg:?}"));
            if false {
                encode_probe(cfg, &mut out);
            }
        }
        (Ok(()), Ok(Err(e))) => {
            out.viol(format!("rejects-in-range:{}", normalise(&e.path())), format!("every field is inside its documented range but verification says: {e}; {cfg:?}"));
        }
        (Err(_), Ok(Err(e))) => {
            out.class("rejected");
            let bad = cfg.offending_fields(EXPERIMENTAL);
            let path = e.path();
            if !bad.iter().any(|f| path.contains(f)) {
                out.viol("error-names-wrong-field", format!("offending field(s) {bad:?} but the error path is `{path}`; {cfg:?}"));
            } else if !bad.iter().any(|f| CfgSpec::path_names(&path, f)) {
                // the path is the dotted position of the field in the public configuration structure
                // (error.rs: `within` prepends the enclosing component; an enum variant name may be one extra component); a path that mixes the section of one
                // offending field with the leaf of another names a field that does not exist
                let want: Vec<&str> = bad.iter().map(|f| CfgSpec::full_path(f)).collect();
                out.viol("error-path-is-not-an-offending-field", format!("offending field(s) {want:?} but the error path is `{path}`; {cfg:?}"));
            }
            if bad.len() >= 2 {
                out.class("rejected:two-or-more-offending-fields");
            }
        }
    }
    let d = CfgSpec::default();
    let on_boundary = [
        [32usize, 32767, 31, 32768].contains(&cfg.block_size),
        [0usize, 4, 5].contains(&cfg.fixed_max_order) && cfg.fixed_max_order != d.fixed_max_order,
        matches!(cfg.order_sel, Some(0) | Some(1) | Some(64) | Some(65)),
        [0usize, 1, 24, 25].contains(&cfg.lpc_order),
        [0usize, 1, 15, 16].contains(&cfg.quant_precision) && cfg.quant_precision != d.quant_precision,
        [0usize, 14, 15].contains(&cfg.max_parameter) && cfg.max_parameter != d.max_parameter,
        cfg.window.map_or(false, |b| {
            let a = f32::from_bits(b);
            a.is_nan() || a <= 0.0 || a >= 1.0
        }),
    ];
    out.nontrivial = on_boundary.iter().any(|x| *x);
    out
}

/// Every valid block size as `config.block_size` (other fields default), probed with an input that is
/// one sample longer than the block, so that the block size is actually used and decoded back.
pub fn check_block_size(b: &usize) -> Outcome {
    let mut cfg = CfgSpec::default();
    cfg.block_size = *b;
    let mut out = Outcome::new(*b as u64);
    out.nontrivial = true;
    let Ok(vcfg) = enc::verified(&cfg) else {
        out.viol("rejects-in-range:block_size", format!("block size {b} is inside 32..=32767 but verification rejects it"));
        return out;
    };
    // mostly silence with a click in the second half of the block (constant detection must not apply)
    let mut samples = vec![0i32; b + 1];
    samples[b / 2] = 57;
    samples[*b] = -3;
    match catch(|| enc::encode_stream(&vcfg, &samples, 1, 8, 22050, *b, SrcKind::Mem).and_then(|s| enc::stream_bytes(&s, enc::sane_bits(samples.len(), 8)))) {
        Err(p) => out.viol(format!("accepted-config-panics:{}", normalise(&p.sig())), format!("block size {b}: {} at {}", p.msg, p.loc)),
        Ok(Err(e)) => out.viol("accepted-config-fails-to-encode", format!("block size {b}: {e}")),
        Ok(Ok(bytes)) => {
            let tr = crate::oracle::refdec::decode(&bytes, Some(*b));
            if tr.fatal.is_some() || tr.samples != samples || tr.frames.len() != 2 || tr.frames[0].block_size != *b {
                out.viol("accepted-config-not-lossless", format!("block size {b}: the emitted stream does not decode to the input ({:?}, {} frames)", tr.fatal, tr.frames.len()));
            }
        }
    }
    out
}

pub fn run(ctx: &Ctx) {
    ctx.rule(
        "complete enumeration of every single field at its boundary values {min-1, min, max, max+1, 2^8+k, 2^32+k, usize::MAX; NaN, +-inf, -0.0, 1+ulp, -ulp for alpha} with all other fields valid, and of ALL PAIRS of such values; plus random full assignments (valid and invalid generators); plus EVERY valid block size 32..=32767 as config.block_size with a probe one sample longer than the block; \
         oracle: independent predicate written from the documentation <=> into_verified().is_ok(), the error path names an offending field, every accepted configuration encodes a probe corpus of 54 inputs (all widths, 1/2/5 channels, 50 and 700 samples; plus sparse inputs: a click in the first samples of silence, audio that stops early in the block, one or two samples, full-scale alternation) without panic and losslessly (reference decoder); \
         non-trivial = configuration with at least one field on a boundary; distinct by value",
    );
    ctx.assume(if EXPERIMENTAL { "built with the experimental feature: experimental options are in range" } else { "built without the experimental feature: use_direct_mse / mae_optimization_steps must be rejected" });
    let fv = field_values();
    // singles
    let mut singles: Vec<(usize, usize)> = vec![];
    for (f, vals) in fv.iter().enumerate() {
        for v in 0..vals.len() {
            singles.push((f, v));
        }
    }
    let ns = singles.len() as u64;
    ctx.enumerate("single-field", 16, ns, |i| {
        let (f, v) = singles[i as usize];
        let mut c = CfgSpec::default();
        fv[f][v](&mut c);
        c
    }, check);
    // all pairs
    let mut pairs: Vec<(usize, usize, usize, usize)> = vec![];
    for f1 in 0..fv.len() {
        for f2 in f1 + 1..fv.len() {
            for v1 in 0..fv[f1].len() {
                for v2 in 0..fv[f2].len() {
                    pairs.push((f1, v1, f2, v2));
                }
            }
        }
    }
    let np = pairs.len() as u64;
    ctx.enumerate("field-pairs", 16, np, |i| {
        let (f1, v1, f2, v2) = pairs[i as usize];
        let mut c = CfgSpec::default();
        fv[f1][v1](&mut c);
        fv[f2][v2](&mut c);
        c
    }, check);
    // every valid block size, actually used by the probe
    ctx.enumerate("block-size-sweep", 16, 32767 - 32 + 1, |i| 32 + i as usize, check_block_size);
    ctx.set_extra("exhaustive_spaces", serde_json::json!({"single_field_boundary_values": ns, "pairs_of_boundary_values": np, "block_size_values_32..=32767_each_used_by_a_probe": 32736}));
    ctx.exhaustive.store(false, std::sync::atomic::Ordering::Relaxed);
    let per = ctx.tier.scale(150, 20);
    ctx.search("random-valid", 16, per, &|| gen::cfg_strategy(CfgOpts { allow_multithread: true, max_block: 32767, ..Default::default() }), check);
    ctx.search("random-any", 16, per * 4, &|| any_cfg_strategy(), check);
    let _ = Tier::Quick;
}

/// Full assignments with each field independently valid or invalid.
pub fn any_cfg_strategy() -> BoxedStrategy<CfgSpec> {
    let us = |lo: usize, hi: usize| prop_oneof![4 => lo..=hi, 1 => Just(hi + 1), 1 => Just(lo.wrapping_sub(1)), 1 => Just(usize::MAX), 1 => Just(hi + 256), 1 => any::<usize>()].boxed();
    (
        (us(32, 32767), any::<bool>(), prop_oneof![Just(None), (1usize..=4).prop_map(Some)], any::<bool>(), any::<bool>(), any::<bool>()),
        (any::<bool>(), any::<bool>(), any::<bool>(), us(0, 4), prop_oneof![Just(None), us(1, 64).prop_map(Some)]),
        (us(1, 24), us(1, 15), prop_oneof![9 => Just(false), 1 => Just(true)], prop_oneof![9 => Just(0usize), 1 => 1usize..4], prop_oneof![2 => Just(None), 4 => gen::alpha_bits_strategy().prop_map(Some), 2 => any::<u32>().prop_map(Some)], us(0, 14)),
    )
        .prop_map(|((block_size, multithread, workers, ls, rs, ms), (uc, uf, ul, fmo, os), (lo, qp, dm, mae, w, mp))| CfgSpec {
            block_size,
            multithread,
            workers,
            ls,
            rs,
            ms,
            use_constant: uc,
            use_fixed: uf,
            use_lpc: ul,
            fixed_max_order: fmo,
            order_sel: os,
            lpc_order: lo,
            quant_precision: qp,
            use_direct_mse: dm,
            mae_steps: mae,
            window: w,
            max_parameter: mp,
            cfg_block: None,
        })
        .boxed()
}

pub fn replay(path: &str) -> Result<Outcome, String> {
    let (kind, case) = crate::core::replay_kind(path)?;
    if kind == "block-size-sweep" {
        return Ok(check_block_size(&serde_json::from_value(case).map_err(|e| e.to_string())?));
    }
    Ok(check(&serde_json::from_value(case).map_err(|e| e.to_string())?))
}
