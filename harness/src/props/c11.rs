//! C11 Bit sinks behave as an ideal MSB-first bit string.

use super::common::*;
use crate::core::{Ctx, Outcome};
use crate::gen::{CfgOpts, InOpts};
use crate::oracle::bits::{BitModel, MinimalSink};
use crate::util::{catch, fnv};
use flacenc::bitsink::{BitSink, MemSink};
use flacenc::component::BitRepr;
use proptest::prelude::*;
use serde::{Deserialize, Serialize};

#[derive(Clone, Debug, Serialize, Deserialize, PartialEq)]
pub enum SinkOp {
    /// whole value of width 8 << w
    Write { w: u8, v: u64 },
    Msbs { w: u8, v: u64, n: usize },
    Lsbs { w: u8, v: u64, n: usize },
    /// two's complement field; `v` fits in `width` bits; `ty` selects i8/i16/i32/i64 when it fits
    Twoc { v: i64, width: usize, ty: u8 },
    Zeros(usize),
    Align,
    Bytes(Vec<u8>),
}

fn width(w: u8) -> usize {
    8usize << (w % 4)
}

fn mask(v: u64, w: u8) -> u64 {
    if width(w) == 64 {
        v
    } else {
        v & ((1u64 << width(w)) - 1)
    }
}

/// Applies `op` to a sink; returns the value returned by align-like operations.
fn apply<S: BitSink>(s: &mut S, op: &SinkOp) -> Result<Option<usize>, S::Error> {
    match op {
        SinkOp::Write { w, v } => match w % 4 {
            0 => s.write(*v as u8).map(|_| None),
            1 => s.write(*v as u16).map(|_| None),
            2 => s.write(*v as u32).map(|_| None),
            _ => s.write(*v).map(|_| None),
        },
        SinkOp::Msbs { w, v, n } => match w % 4 {
            0 => s.write_msbs(*v as u8, *n).map(|_| None),
            1 => s.write_msbs(*v as u16, *n).map(|_| None),
            2 => s.write_msbs(*v as u32, *n).map(|_| None),
            _ => s.write_msbs(*v, *n).map(|_| None),
        },
        SinkOp::Lsbs { w, v, n } => match w % 4 {
            0 => s.write_lsbs(*v as u8, *n).map(|_| None),
            1 => s.write_lsbs(*v as u16, *n).map(|_| None),
            2 => s.write_lsbs(*v as u32, *n).map(|_| None),
            _ => s.write_lsbs(*v, *n).map(|_| None),
        },
        SinkOp::Twoc { v, width, ty } => {
            let fits = |bits: u32| *v >= -(1i64 << (bits - 1)) && *v <= (1i64 << (bits - 1)) - 1;
            match ty % 4 {
                0 if fits(8) => s.write_twoc(*v as i8, *width).map(|_| None),
                1 if fits(16) => s.write_twoc(*v as i16, *width).map(|_| None),
                2 if fits(32) => s.write_twoc(*v as i32, *width).map(|_| None),
                _ => s.write_twoc(*v, *width).map(|_| None),
            }
        }
        SinkOp::Zeros(n) => s.write_zeros(*n).map(|_| None),
        SinkOp::Align => s.align_to_byte().map(Some),
        SinkOp::Bytes(b) => s.write_bytes_aligned(b).map(Some),
    }
}

fn apply_model(m: &mut BitModel, op: &SinkOp) -> Option<usize> {
    match op {
        SinkOp::Write { w, v } => {
            m.push_msb_first(mask(*v, *w), width(*w));
            None
        }
        SinkOp::Msbs { w, v, n } => {
            let v = mask(*v, *w);
            if *n > 0 {
                m.push_msb_first(v >> (width(*w) - n), *n);
            }
            None
        }
        SinkOp::Lsbs { w, v, n } => {
            m.push_msb_first(mask(*v, *w), *n);
            None
        }
        SinkOp::Twoc { v, width, .. } => {
            m.push_msb_first(*v as u64, *width);
            None
        }
        SinkOp::Zeros(n) => {
            m.zeros(*n);
            None
        }
        SinkOp::Align => Some(m.align()),
        SinkOp::Bytes(b) => {
            let p = m.align();
            for x in b {
                m.push_msb_first(*x as u64, 8);
            }
            Some(p)
        }
    }
}

fn op_tag(op: &SinkOp) -> String {
    match op {
        SinkOp::Write { w, .. } => format!("write<u{}>", width(*w)),
        SinkOp::Msbs { w, n, .. } => format!("write_msbs<u{}>(n={})", width(*w), if *n == 0 { "0".into() } else if *n == width(*w) { "full".to_string() } else { "part".to_string() }),
        SinkOp::Lsbs { w, n, .. } => format!("write_lsbs<u{}>(n={})", width(*w), if *n == 0 { "0".into() } else if *n == width(*w) { "full".to_string() } else { "part".to_string() }),
        SinkOp::Twoc { .. } => "write_twoc".into(),
        SinkOp::Zeros(n) => format!("write_zeros({})", if *n == 0 { "0" } else if *n <= 64 { "<=64" } else { ">64" }),
        SinkOp::Align => "align_to_byte".into(),
        SinkOp::Bytes(_) => "write_bytes_aligned".into(),
    }
}

fn expected_bitstring(m: &BitModel, word: usize) -> String {
    // chunks of `word` bits joined by '_', unfilled tail of the last chunk shown as '*'
    let mut s = String::new();
    let n = m.len();
    let total = (n + word - 1) / word * word;
    for i in 0..total {
        if i > 0 && i % word == 0 {
            s.push('_');
        }
        s.push(if i < n { if m.bits[i] { '1' } else { '0' } } else { '*' });
    }
    s
}

pub fn check_ops(ops: &Vec<SinkOp>) -> Outcome {
    let mut out = Outcome::new(fnv(serde_json::to_string(ops).unwrap_or_default().as_bytes()));
    let mut model = BitModel::new();
    let mut s8 = MemSink::<u8>::new();
    let mut s64 = MemSink::<u64>::new();
    let mut user = MinimalSink::new();
    let mut crossings = 0;
    for (i, op) in ops.iter().enumerate() {
        let before = model.len();
        let tag = op_tag(op);
        out.class(tag.clone());
        let rm = apply_model(&mut model, op);
        if before / 64 != model.len() / 64 {
            crossings += 1;
        }
        let desc = |which: &str| format!("after op #{i} {op:?} on {which} (sequence of {} ops, {} bits before)", ops.len(), before);
        match catch(|| apply(&mut s8, op)) {
            Ok(Ok(r)) => {
                if s8.len() != model.len() || r != rm {
                    out.viol(format!("MemSink<u8>:{tag}:length-or-return"), format!("len {} (model {}), returned {:?} (model {:?}) {}", s8.len(), model.len(), r, rm, desc("MemSink<u8>")));
                    return out;
                }
            }
            Ok(Err(e)) => {
                out.viol(format!("{tag}:sink-error"), format!("{e:?}"));
                return out;
            }
            Err(p) => {
                out.viol(format!("MemSink<u8>:{tag}:{}", p.sig()), format!("{} {}", p.msg, desc("MemSink<u8>")));
                return out;
            }
        }
        match catch(|| apply(&mut s64, op)) {
            Ok(Ok(r)) => {
                if s64.len() != model.len() || r != rm {
                    out.viol(format!("MemSink<u64>:{tag}:length-or-return"), format!("len {} (model {}), returned {:?} (model {:?}) {}", s64.len(), model.len(), r, rm, desc("MemSink<u64>")));
                    return out;
                }
            }
            Ok(Err(e)) => {
                out.viol(format!("{tag}:sink-error"), format!("{e:?}"));
                return out;
            }
            Err(p) => {
                out.viol(format!("MemSink<u64>:{tag}:{}", p.sig()), format!("{} {}", p.msg, desc("MemSink<u64>")));
                return out;
            }
        }
        match catch(|| apply(&mut user, op)) {
            Ok(Ok(r)) => {
                if user.model.len() != model.len() || r != rm {
                    out.viol(format!("default-methods:{tag}:length-or-return"), format!("len {} (model {}), returned {:?} (model {:?}) {}", user.model.len(), model.len(), r, rm, desc("user sink (default methods)")));
                    return out;
                }
            }
            Ok(Err(e)) => {
                out.viol(format!("{tag}:sink-error"), format!("{e:?}"));
                return out;
            }
            Err(p) => {
                out.viol(format!("default-methods:{tag}:{}", p.sig()), format!("{} {}", p.msg, desc("user sink")));
                return out;
            }
        }
        // contents after every step (bits and zero tail)
        let want = model.to_bytes();
        if s8.as_slice() != &want[..] {
            out.viol(format!("MemSink<u8>:{tag}:bits-differ"), format!("bytes {:02x?} vs model {:02x?} {}", s8.as_slice(), want, desc("MemSink<u8>")));
            return out;
        }
        let mut got = vec![0u8; want.len()];
        s64.write_to_byte_slice(&mut got);
        if got != want {
            out.viol(format!("MemSink<u64>:{tag}:bits-differ"), format!("bytes {:02x?} vs model {:02x?} {}", got, want, desc("MemSink<u64>")));
            return out;
        }
        if user.model != model {
            out.viol(format!("default-methods:{tag}:bits-differ"), format!("{} vs {} {}", user.model.bitstring(), model.bitstring(), desc("user sink")));
            return out;
        }
    }
    // exports
    let want = model.to_bytes();
    let mut words = vec![];
    for ch in want.chunks(8) {
        let mut w = [0u8; 8];
        w[..ch.len()].copy_from_slice(ch);
        words.push(u64::from_be_bytes(w));
    }
    if s64.as_slice() != &words[..] {
        out.viol("MemSink<u64>:as_slice", format!("{:016x?} vs {:016x?}", s64.as_slice(), words));
        return out;
    }
    let mut got8 = vec![0u8; want.len()];
    s8.write_to_byte_slice(&mut got8);
    if got8 != want {
        out.viol("MemSink<u8>:write_to_byte_slice", format!("{got8:02x?} vs {want:02x?}"));
        return out;
    }
    if s8.to_bitstring() != expected_bitstring(&model, 8) {
        out.viol("MemSink<u8>:to_bitstring", format!("{} vs {}", s8.to_bitstring(), expected_bitstring(&model, 8)));
        return out;
    }
    if s64.to_bitstring() != expected_bitstring(&model, 64) {
        out.viol("MemSink<u64>:to_bitstring", format!("{} vs {}", s64.to_bitstring(), expected_bitstring(&model, 64)));
        return out;
    }
    if s8.is_empty() != (model.len() == 0) || s64.is_empty() != (model.len() == 0) {
        out.viol("is_empty", "disagrees with the model".to_string());
        return out;
    }
    out.nontrivial = ops.len() >= 3 && crossings >= 1;
    out
}

pub fn op_strategy() -> BoxedStrategy<SinkOp> {
    let val = || prop_oneof![2 => any::<u64>(), 1 => Just(u64::MAX), 1 => Just(0u64), 1 => Just(0xAAAA_AAAA_AAAA_AAAAu64), 1 => Just(1u64), 1 => Just(1u64 << 63)];
    prop_oneof![
        2 => (0u8..4, val()).prop_map(|(w, v)| SinkOp::Write { w, v }),
        5 => (0u8..4, val(), 0usize..=64).prop_map(|(w, v, n)| SinkOp::Msbs { w, v, n: n.min(width(w)) }),
        5 => (0u8..4, val(), 0usize..=64).prop_map(|(w, v, n)| SinkOp::Lsbs { w, v, n: n.min(width(w)) }),
        1 => (0u8..4, val()).prop_map(|(w, v)| SinkOp::Msbs { w, v, n: 0 }),
        1 => (0u8..4, val()).prop_map(|(w, v)| SinkOp::Lsbs { w, v, n: 0 }),
        1 => (0u8..4, val()).prop_map(|(w, v)| SinkOp::Msbs { w, v, n: width(w) }),
        3 => (1usize..=64, any::<i64>(), 0u8..4).prop_map(|(width, v, ty)| {
            let v = if width == 64 { v } else { let m = 1i64 << (width - 1); ((v % m) + if v % 3 == 0 { -m } else { 0 }).clamp(-m, m - 1) };
            SinkOp::Twoc { v, width, ty }
        }),
        3 => prop_oneof![0usize..=8, 0usize..=300, Just(64usize), Just(65usize), Just(63usize), Just(128usize)].prop_map(SinkOp::Zeros),
        2 => Just(SinkOp::Align),
        2 => proptest::collection::vec(any::<u8>(), 0..12).prop_map(SinkOp::Bytes),
    ]
    .boxed()
}

// exhaustive: (start offset 0..63) x type x n x {ones, alternating, seeded random} x {msbs, lsbs}, then a sentinel
#[derive(Clone, Debug, Serialize, Deserialize)]
pub struct Grid {
    pub offset: usize,
    pub w: u8,
    pub seed: u64,
}

pub fn check_grid(g: &Grid) -> Outcome {
    let mut out = Outcome::new(crate::util::mix(g.offset as u64, g.w as u64));
    let wd = width(g.w);
    let vals = [u64::MAX, 0xAAAA_AAAA_AAAA_AAAA, crate::util::mix(g.seed, (g.offset * 4 + g.w as usize) as u64)];
    let mut n_cases = 0;
    for n in 0..=wd {
        for v in vals {
            for lsb in [false, true] {
                let mut ops = vec![];
                if g.offset > 0 {
                    ops.push(SinkOp::Lsbs { w: 3, v: 0x5555_5555_5555_5555 ^ (v >> 7), n: g.offset });
                }
                ops.push(if lsb { SinkOp::Lsbs { w: g.w, v, n } } else { SinkOp::Msbs { w: g.w, v, n } });
                ops.push(SinkOp::Write { w: 1, v: 0xA5C3 });
                let o = check_ops(&ops);
                n_cases += 1;
                if let Some(x) = o.viols.first() {
                    out.viol(x.sig.clone(), format!("offset {} type u{} n {} value {:#x} {}: {}", g.offset, wd, n, v, if lsb { "lsbs" } else { "msbs" }, x.detail));
                    out.weight = n_cases;
                    return out;
                }
            }
        }
    }
    out.weight = n_cases;
    out.class(format!("grid:u{wd}"));
    out
}

/// Components serialised into the minimal user sink give the in-memory sinks' bit sequence.
pub fn check_component(case: &StreamCase) -> Outcome {
    let mut out = Outcome::new(case.fp());
    let samples = case.inp.samples();
    let Ok((stream, _)) = encode_case(case, &samples) else {
        out.class("skipped:encode-failed(C01)");
        return out;
    };
    if stream.count_bits() > crate::enc::sane_bits(samples.len(), case.inp.bps) {
        out.class("skipped:oversized(C09)");
        return out;
    }
    let r = catch(|| {
        let mut a = MemSink::<u8>::new();
        let mut b = MemSink::<u64>::new();
        let mut u = MinimalSink::new();
        stream.write(&mut a).map_err(|e| format!("{e:?}"))?;
        stream.write(&mut b).map_err(|e| format!("{e:?}"))?;
        stream.write(&mut u).map_err(|e| format!("{e:?}"))?;
        Ok::<_, String>((a, b, u))
    });
    match r {
        Ok(Ok((a, b, u))) => {
            let m = BitModel::from_bytes(a.as_slice(), a.len());
            let mut bb = vec![0u8; (b.len() + 7) / 8];
            b.write_to_byte_slice(&mut bb);
            if a.len() != b.len() || a.as_slice() != &bb[..] {
                out.viol("component:MemSink<u8>-vs-MemSink<u64>", format!("{} vs {} bits", a.len(), b.len()));
            } else if u.model != m {
                let at = u.model.bits.iter().zip(m.bits.iter()).position(|(x, y)| x != y);
                out.viol("component:user-sink-differs", format!("user sink received {} bits, in-memory {} bits, first difference at bit {:?}", u.model.len(), m.len(), at));
            }
            out.nontrivial = stream.frame_count() >= 1;
            out.class("component:stream");
            // "any component": every frame (as encoded and with a precomputed bitstream), frame header, subframe,
            // residual and the STREAMINFO block, each serialised alone behind 0..=13 stray bits (inside a frame no
            // component starts on a byte boundary) into the three sinks
            if !out.failed() {
                let mut k = (case.inp.seed % 14) as usize;
                let mut parts = 0usize;
                three_way("stream-info", stream.stream_info(), k, &mut out);
                'frames: for n in 0..stream.frame_count() {
                    let f = stream.frame(n).unwrap();
                    k = (k * 5 + 3) % 14;
                    three_way("frame", f, k, &mut out);
                    let mut pre = f.clone();
                    pre.precompute_bitstream();
                    three_way("frame-precomputed", &pre, (k + 5) % 14, &mut out);
                    three_way("frame-header", f.header(), (k + 1) % 14, &mut out);
                    for c in 0..f.subframe_count() {
                        let sf = f.subframe(c).unwrap();
                        three_way("subframe", sf, (k + 2 + c) % 14, &mut out);
                        match sf {
                            flacenc::component::SubFrame::FixedLpc(x) => three_way("residual", x.residual(), (k + 7 + c) % 14, &mut out),
                            flacenc::component::SubFrame::Lpc(x) => three_way("residual", x.residual(), (k + 9 + c) % 14, &mut out),
                            _ => {}
                        }
                        parts += 1;
                        if out.failed() || parts > 64 {
                            break 'frames;
                        }
                    }
                }
            }
        }
        Ok(Err(_)) => out.class("skipped:write-error(C12/C18)"),
        Err(_) => out.class("skipped:write-panic(C01)"),
    }
    out
}

/// One component behind `lead` stray bits in MemSink<u8>, MemSink<u64> and the minimal user sink: same bits.
fn three_way<T: BitRepr>(what: &str, c: &T, lead: usize, out: &mut Outcome) {
    if out.failed() {
        return;
    }
    let r = catch(|| {
        let mut a = MemSink::<u8>::new();
        let mut b = MemSink::<u64>::new();
        let mut u = MinimalSink::new();
        let pat = 0x2AAAu16;
        a.write_lsbs(pat, lead).map_err(|e| format!("{e:?}"))?;
        b.write_lsbs(pat, lead).map_err(|e| format!("{e:?}"))?;
        u.write_lsbs(pat, lead).map_err(|e| format!("{e:?}"))?;
        c.write(&mut a).map_err(|e| format!("{e:?}"))?;
        c.write(&mut b).map_err(|e| format!("{e:?}"))?;
        c.write(&mut u).map_err(|e| format!("{e:?}"))?;
        Ok::<_, String>((a, b, u))
    });
    match r {
        Ok(Ok((a, b, u))) => {
            let m = BitModel::from_bytes(a.as_slice(), a.len());
            let mut bb = vec![0u8; (b.len() + 7) / 8];
            b.write_to_byte_slice(&mut bb);
            let counted = c.count_bits();
            // frames and blocks pad to a byte boundary of the *sink*; only unpadded components have a position-independent length
            if a.len() != b.len() || a.as_slice() != &bb[..] {
                out.viol(format!("component:{what}:MemSink<u8>-vs-MemSink<u64>"), format!("{} vs {} bits behind {lead} stray bits (count_bits {counted})", a.len(), b.len()));
            } else if u.model != m {
                let at = u.model.bits.iter().zip(m.bits.iter()).position(|(x, y)| x != y);
                out.viol(format!("component:{what}:user-sink-differs"), format!("behind {lead} stray bits the user sink received {} bits, the in-memory sinks {} bits, first difference at bit {:?}", u.model.len(), m.len(), at));
            }
            out.class(format!("component:{what}"));
        }
        Ok(Err(_)) => out.class("skipped:write-error(C12/C18)"),
        Err(_) => out.class("skipped:write-panic(C01)"),
    }
}

pub fn run(ctx: &Ctx) {
    ctx.rule(
        "histories = vec(op, 1..40) over {write<T>, write_msbs<T>(v,n), write_lsbs<T>(v,n), write_twoc(v,w), write_zeros(n), align_to_byte, write_bytes_aligned} with T in u8..u64 and n in 0..=bits(T), applied step by step to MemSink<u8>, MemSink<u64>, a user sink implementing only the required methods, and a Vec<bool> model; \
         exhaustive grid: start offset 0..=63 x T x n in 0..=bits(T) x {all ones, alternating, random} x {msbs, lsbs} followed by a sentinel write; components (generated streams; then every frame as encoded and precomputed, frame header, subframe, residual and the STREAMINFO block alone behind 0..=13 stray bits) serialised into all three sinks; \
         non-trivial = sequence with >= 3 ops that crosses a 64-bit word boundary (every grid point counts)",
    );
    let per = ctx.tier.scale(60000, 8);
    ctx.search("ops", 16, per, &|| proptest::collection::vec(op_strategy(), 1..40), check_ops);
    let seed = ctx.seed;
    ctx.enumerate("grid", 16, 64 * 4, |i| Grid { offset: (i / 4) as usize, w: (i % 4) as u8, seed }, check_grid);
    if !ctx.stop.load(std::sync::atomic::Ordering::SeqCst) {
        ctx.bulk_distinct.fetch_add(64 * (9 + 17 + 33 + 65) * 6, std::sync::atomic::Ordering::Relaxed);
        ctx.set_extra("exhaustive_spaces", serde_json::json!(["(bit offset 0..=63) x (u8,u16,u32,u64) x (n in 0..=width) x 3 values x {write_msbs, write_lsbs} + sentinel"]));
    }
    ctx.search("component", 16, ctx.tier.scale(400, 8), &|| stream_case_strategy(CfgOpts { max_block: 1024, ..Default::default() }, InOpts { budget: 4000, ..Default::default() }, false), check_component);
}

pub fn replay(path: &str) -> Result<Outcome, String> {
    let (kind, case) = crate::core::replay_kind(path)?;
    match kind.as_str() {
        "grid" => Ok(check_grid(&serde_json::from_value(case).map_err(|e| e.to_string())?)),
        "component" => Ok(check_component(&serde_json::from_value(case).map_err(|e| e.to_string())?)),
        _ => Ok(check_ops(&serde_json::from_value(case).map_err(|e| e.to_string())?)),
    }
}
