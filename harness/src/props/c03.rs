//! C03 STREAMINFO states the true format, sample count and MD5 of the input.

use super::common::*;
use crate::core::{Ctx, Outcome};
use crate::enc::{self, SrcKind};
use crate::gen::{CfgOpts, InOpts};
use crate::oracle::{md5, refdec};
use crate::util::{catch, hex};
use proptest::prelude::*;
use serde::{Deserialize, Serialize};

#[derive(Clone, Debug, Serialize, Deserialize)]
pub struct Case {
    pub base: StreamCase,
    /// end-of-input behaviour of the integer/byte test sources
    pub fill_empty_at_end: bool,
    pub workers: usize,
}

/// Parses the first 42 bytes with the reference reader.
fn info_of(bytes: &[u8]) -> Result<refdec::StreamInfoT, String> {
    if bytes.len() < 42 {
        return Err("stream shorter than 42 bytes".into());
    }
    let tr = refdec::decode(&bytes[..42], None);
    if let Some(f) = tr.fatal {
        return Err(f);
    }
    Ok(tr.info)
}

pub fn check(case: &Case) -> Outcome {
    let b = &case.base;
    let mut out = Outcome::new(b.fp() ^ case.fill_empty_at_end as u64 ^ ((case.workers as u64) << 8));
    out.class(format!("bps:{}", b.inp.bps));
    let samples = b.inp.samples();
    let (ch, bps, rate, block) = (b.inp.channels, b.inp.bps, b.inp.rate, b.cfg.block_size);
    let want_md5 = md5::pcm_md5(&samples, bps);
    let limit = enc::sane_bits(samples.len(), bps);
    let mut reference: Option<(String, Vec<u8>)> = None;
    // every (mode, source kind) variant must state the same, true values
    let mut variants: Vec<(String, bool, SrcKind, bool)> = vec![];
    for multi in [false, true] {
        for kind in [SrcKind::Mem, SrcKind::Int, SrcKind::Bytes] {
            variants.push((format!("{}/{kind:?}", if multi { "multi" } else { "single" }), multi, kind, false));
        }
    }
    variants.push(("frames/Int".into(), false, SrcKind::Int, true));
    variants.push(("frames/Bytes".into(), false, SrcKind::Bytes, true));
    // pre-flight (see common::encode_case): do not run real threads on oversized output
    {
        let mut c1 = b.clone();
        c1.entry = Entry::Single;
        c1.cfg.multithread = false;
        match encode_case(&c1, &samples) {
            Ok((s, _)) => {
                use flacenc::component::BitRepr;
                if s.count_bits() > limit {
                    out.class("skipped:oversized(C09)");
                    return out;
                }
            }
            Err(_) => {
                out.class("skipped:encode-panic-or-error(C01)");
                return out;
            }
        }
    }
    for (name, multi, kind, frames) in variants {
        let mut cfg = b.cfg.clone();
        cfg.multithread = multi;
        cfg.workers = if multi { Some(case.workers.max(1)) } else { None };
        let vcfg = match enc::verified(&cfg) {
            Ok(v) => v,
            Err(_) => {
                out.class("skipped:config-rejected(C07)");
                return out;
            }
        };
        let r = catch(|| {
            if frames {
                enc::encode_by_frames(&vcfg, &samples, ch, bps, rate, block, kind).map(|x| x.0)
            } else if kind == SrcKind::Mem {
                enc::encode_stream(&vcfg, &samples, ch, bps, rate, block, kind)
            } else {
                enc::encode_stream_eoi(&vcfg, &samples, ch, bps, rate, block, kind, case.fill_empty_at_end)
            }
        });
        let stream = match r {
            Ok(Ok(s)) => s,
            _ => {
                out.class("skipped:encode-panic-or-error(C01)");
                return out;
            }
        };
        let bytes = match catch(|| enc::stream_bytes(&stream, limit)) {
            Ok(Ok(b)) => b,
            _ => {
                out.class("skipped:write-failed");
                return out;
            }
        };
        let info = match info_of(&bytes) {
            Ok(i) => i,
            Err(e) => {
                out.viol("streaminfo-unreadable", format!("{name}: {e}"));
                return out;
            }
        };
        let ctxs = format!("{name}; {} block {block}", b.inp.describe());
        if info.rate as usize != rate || info.channels as usize != ch || info.bps as usize != bps {
            out.viol("format-fields-wrong", format!("STREAMINFO rate/channels/bps = {}/{}/{}; {ctxs}", info.rate, info.channels, info.bps));
            return out;
        }
        if info.total as usize != b.inp.len {
            out.viol(format!("total-samples-wrong:{}", if multi { "multi" } else if frames { "frames" } else { "single" }), format!("STREAMINFO total samples {} but {} inter-channel samples were consumed; {ctxs}", info.total, b.inp.len));
            return out;
        }
        if info.md5 != want_md5 {
            out.viol(
                format!("md5-wrong:{}:{kind:?}", if multi { "multi" } else if frames { "frames" } else { "single" }),
                format!("STREAMINFO MD5 {} but the input's MD5 is {}; {ctxs}", hex(&info.md5), hex(&want_md5)),
            );
            return out;
        }
        let si = stream.stream_info();
        if si.sample_rate() != rate || si.channels() != ch || si.bits_per_sample() != bps || si.total_samples() != b.inp.len || si.md5_digest() != &want_md5 {
            out.viol("accessor-disagrees", format!("accessors disagree with the input; {ctxs}"));
            return out;
        }
        // identical STREAMINFO across variants that share an entry point family (frame-level assembly
        // shares everything but is finalised by the caller, so it is compared on the same 42 bytes too)
        match &reference {
            None => reference = Some((name.clone(), bytes[..42].to_vec())),
            Some((n0, b0)) => {
                if b0[..] != bytes[..42] {
                    out.viol("streaminfo-differs-between-variants", format!("{n0} vs {name}: {} vs {}", hex(b0), hex(&bytes[..42])));
                    return out;
                }
            }
        }
    }
    // a MemSource that has been read from before it is handed (by &mut) to the encoder: the stream covers what is left
    {
        use flacenc::source::{FrameBuf, MemSource, Source};
        let pre = if b.inp.len == 0 { 0 } else { (b.inp.seed as usize % b.inp.len).min(block) };
        for (multi, twice) in [(false, false), (true, false), (false, true)] {
            let mut cfg = b.cfg.clone();
            cfg.multithread = multi;
            cfg.workers = if multi { Some(case.workers.max(1)) } else { None };
            let Ok(vcfg) = enc::verified(&cfg) else { break };
            let r = catch(|| -> Result<(flacenc::component::Stream, usize), String> {
                let mut src = MemSource::from_samples(&samples, ch, bps, rate);
                let mut consumed = 0;
                if twice {
                    // first encode reads the source to its end, the second one sees an exhausted source
                    flacenc::encode_with_fixed_block_size(&vcfg, &mut src, block).map_err(|e| format!("{e:?}"))?;
                    consumed = b.inp.len;
                } else if pre > 0 {
                    let mut fb = FrameBuf::with_size(ch, block).map_err(|e| format!("{e:?}"))?;
                    consumed = src.read_samples(pre, &mut fb).map_err(|e| format!("{e:?}"))?;
                }
                let s = flacenc::encode_with_fixed_block_size(&vcfg, &mut src, block).map_err(|e| format!("{e:?}"))?;
                Ok((s, consumed))
            });
            let (stream, consumed) = match r {
                Ok(Ok(x)) => x,
                _ => {
                    out.class("skipped:partially-read-source-variant-failed(C01)");
                    break;
                }
            };
            let rest = &samples[consumed * ch..];
            let want = md5::pcm_md5(rest, bps);
            let si = stream.stream_info();
            let name = format!("MemSource after {consumed} of {} samples were read ({}{})", b.inp.len, if multi { "multi" } else { "single" }, if twice { ", second encode of the same source" } else { "" });
            out.class(if twice { "variant:exhausted-source-encoded-again" } else if consumed > 0 { "variant:partially-read-source" } else { "variant:fresh-source-by-mut-ref" });
            if si.total_samples() != rest.len() / ch {
                out.viol(format!("total-samples-wrong:partially-read-source:{}", if multi { "multi" } else { "single" }), format!("{name}: STREAMINFO total {} but {} inter-channel samples were consumed by this encode", si.total_samples(), rest.len() / ch));
                return out;
            }
            if si.md5_digest() != &want {
                out.viol("md5-wrong:partially-read-source", format!("{name}: MD5 {} but the samples consumed by this encode have {}", hex(si.md5_digest()), hex(&want)));
                return out;
            }
        }
    }
    let frames = (b.inp.len + block - 1) / block;
    let negative = samples.iter().any(|x| *x < 0);
    if b.inp.len == 0 {
        out.class("empty-input");
    }
    if frames >= 2 {
        out.class("multi-frame");
    }
    out.nontrivial = (frames >= 2 && negative) || bps != 16;
    out
}

pub fn case_strategy(io: InOpts) -> BoxedStrategy<Case> {
    (stream_case_strategy(CfgOpts { max_block: 4608, ..Default::default() }, io, false), any::<bool>(), 1usize..=5)
        .prop_map(|(base, fill_empty_at_end, workers)| Case { base, fill_empty_at_end, workers })
        .boxed()
}

pub fn run(ctx: &Ctx) {
    ctx.rule(
        "cases = (config, input) encoded 8 ways: {single, multi(real threads, 1..=5 workers)} x {MemSource, integer fill, byte fill} + frame-level x {integer, byte}; both end-of-input behaviours of a source; a MemSource handed over by &mut after part of it (or all of it, by a first encode) has been read: total and MD5 of what this encode consumed; the frame-level variant either copies the context's sample count or relies on the total accumulated by Stream::add_frame; family power-of-two-block-bytes: every (channels, width, block size) whose block is exactly 2^15..2^19 or 3*2^15..3*2^17 bytes, two blocks and a few samples, all 8 ways; \
         oracle: STREAMINFO parsed by the reference reader states the source's rate/channels/bps, total = inter-channel samples consumed, MD5 = harness' own RFC 1321 digest of its own LE serialisation; accessors agree; the 42 bytes are identical across the 8 variants; \
         non-trivial = (>= 2 frames and a negative sample) or bps != 16; scheduled interleavings of the hashing thread are explored in part 'sched' (see DESIGN 3.6)",
    );
    ctx.assume("Source contract: full blocks except the last, one fill call per read");
    let per = ctx.tier.scale(150, 15);
    ctx.search("variants", 16, per, &|| case_strategy(InOpts { budget: 12_000, ..Default::default() }), check);
    ctx.search("variants-empty-and-tiny", 16, per / 3, &|| {
        (case_strategy(InOpts { budget: 4_000, ..Default::default() }), 0usize..=40).prop_map(|(mut c, l)| {
            c.base.inp.len = l;
            c
        })
    }, check);
    // shapes whose block is an exact power-of-two number of bytes (32 KiB .. 512 KiB, and 3 x 2^k): where chunked
    // hashing / staging buffers of such sizes would have their boundaries
    {
        use crate::gen::{CfgSpec, ChanSpec, InputSpec, Seg};
        let mut shapes: Vec<(usize, usize, usize)> = vec![];
        for total in [1usize << 15, 1 << 16, 1 << 17, 1 << 18, 1 << 19, 3 << 15, 3 << 16, 3 << 17] {
            for ch in 1usize..=8 {
                for bps in [8usize, 16, 24] {
                    let per_sample = ch * ((bps + 7) / 8);
                    if total % per_sample == 0 && (32..=32767).contains(&(total / per_sample)) {
                        shapes.push((ch, bps, total / per_sample));
                    }
                }
            }
        }
        ctx.bump("shapes-with-power-of-two-block-bytes", shapes.len() as u64);
        ctx.enumerate_all("power-of-two-block-bytes", 16, shapes.len() as u64, |i| {
            let (ch, bps, block) = shapes[i as usize];
            let mut cfg = CfgSpec::default();
            cfg.block_size = block;
            cfg.use_lpc = false;
            cfg.fixed_max_order = 1;
            let inp = InputSpec { channels: ch, bps, rate: 48000, len: 2 * block + 5 + i as usize % 3, chans: vec![ChanSpec { segs: vec![Seg { class: 4, amp: 2, p: 99 }] }; ch], rel: 0, seed: 500 + i, explicit: None };
            Case { base: StreamCase { cfg, inp, entry: Entry::Single, src: SrcKind::Mem }, fill_empty_at_end: i % 2 == 0, workers: 1 + i as usize % 3 }
        }, check);
    }
    super::c03_sched_part(ctx);
}

pub fn replay(path: &str) -> Result<Outcome, String> {
    let (kind, case) = crate::core::replay_kind(path)?;
    if kind.starts_with("sched") {
        return super::c03_sched_replay(case);
    }
    let c: Case = serde_json::from_value(case).map_err(|e| e.to_string())?;
    Ok(check(&c))
}
