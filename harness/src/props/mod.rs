pub mod assembled;
pub mod c01;
pub mod c02;
pub mod c03;
pub mod c04;
pub mod c07;
pub mod c08;
pub mod c09;
pub mod c10;
pub mod c11;
pub mod c12;
pub mod c13;
pub mod c14;
pub mod c15;
pub mod c16;
pub mod c17;
pub mod c18;
pub mod c19;
pub mod c20;
pub mod common;
pub mod par;

use crate::core::{Ctx, Outcome, Viol, VERIF_ROOT};

pub struct Prop {
    pub id: &'static str,
    pub level: &'static str,
    pub run: fn(&Ctx),
    pub replay: fn(&str) -> Result<Outcome, String>,
}

pub fn all() -> Vec<Prop> {
    vec![
        Prop { id: "C01", level: "exploration", run: c01::run, replay: c01::replay },
        Prop { id: "C02", level: "exploration", run: c02::run, replay: c02::replay },
        Prop { id: "C03", level: "exploration", run: c03::run, replay: c03::replay },
        Prop { id: "C04", level: "exploration", run: c04::run, replay: c04::replay },
        Prop { id: "C05", level: "exploration", run: par::run_c05, replay: par::replay },
        Prop { id: "C06", level: "fault_enumeration", run: par::run_c06, replay: par::replay },
        Prop { id: "C07", level: "exploration", run: c07::run, replay: c07::replay },
        Prop { id: "C08", level: "exploration", run: c08::run, replay: c08::replay },
        Prop { id: "C09", level: "exploration", run: c09::run, replay: c09::replay },
        Prop { id: "C10", level: "exploration", run: c10::run, replay: c10::replay },
        Prop { id: "C11", level: "exploration", run: c11::run, replay: c11::replay },
        Prop { id: "C12", level: "fault_enumeration", run: c12::run, replay: c12::replay },
        Prop { id: "C13", level: "exploration", run: c13::run, replay: c13::replay },
        Prop { id: "C14", level: "exploration", run: c14::run, replay: c14::replay },
        Prop { id: "C15", level: "exploration", run: c15::run, replay: c15::replay },
        Prop { id: "C16", level: "fault_enumeration", run: c16::run, replay: c16::replay },
        Prop { id: "C17", level: "exploration", run: c17::run, replay: c17::replay },
        Prop { id: "C18", level: "exploration", run: c18::run, replay: c18::replay },
        Prop { id: "C19", level: "exploration", run: c19::run, replay: c19::replay },
        Prop { id: "C20", level: "exploration", run: c20::run, replay: c20::replay },
    ]
}

pub fn find(id: &str) -> Option<Prop> {
    all().into_iter().find(|p| p.id == id)
}

/// Internal sub-commands (executor children etc.).
pub fn internal(cmd: &str, rest: &[String]) -> Option<i32> {
    match cmd {
        "analyze-raw" => Some(match rest.first().map(|p| c16::analyze_raw(p)) {
            Some(Ok(())) => 0,
            other => {
                eprintln!("{other:?}");
                2
            }
        }),
        "exec-sched" => Some(par::executor_main()),
        "build-probes" => Some(match c20::build_probes() {
            Ok(f) => {
                println!("feature-set probes built: {f:?}");
                0
            }
            Err(e) => {
                eprintln!("{e}");
                2
            }
        }),
        _ => None,
    }
}

/// Replays every committed `replays/<id>/regress-*.json` before the search.
pub fn run_regressions(ctx: &Ctx, p: &Prop) {
    if std::env::var_os("VH_NO_REGRESS").is_some() {
        return;
    }
    let dir = format!("{VERIF_ROOT}/replays/{}", p.id);
    let Ok(rd) = std::fs::read_dir(&dir) else { return };
    let mut files: Vec<String> = rd
        .filter_map(|e| e.ok())
        .map(|e| e.path().to_string_lossy().to_string())
        .filter(|f| f.rsplit('/').next().map_or(false, |n| n.starts_with("regress-") && n.ends_with(".json")))
        .collect();
    files.sort();
    for f in files {
        match (p.replay)(&f) {
            Ok(out) => {
                let case = crate::core::replay_kind(&f).map(|x| x.1).unwrap_or(serde_json::Value::Null);
                let mut o = out.clone();
                o.classes.push("regression-replay".into());
                let fresh: Vec<Viol> = ctx.record("regression", &case, &o);
                if let Some(v) = fresh.first() {
                    ctx.fail("regression", &case, v);
                }
            }
            Err(e) => {
                ctx.inconclusive.lock().unwrap().push(format!("regression file {f}: {e}"));
            }
        }
    }
}

/// Scheduled part of C03 (hashing-thread interleavings); filled in by the scheduler module.
pub fn c03_sched_part(ctx: &Ctx) {
    par::c03_sched_part(ctx)
}
pub fn c03_sched_replay(case: serde_json::Value) -> Result<Outcome, String> {
    par::replay_value(case)
}
