//! Driving the library: source doubles, entry points, safe serialisation.

use crate::gen::CfgSpec;
use flacenc::bitsink::ByteSink;
use flacenc::component::{BitRepr, Frame, Stream, StreamInfo};
use flacenc::config;
use flacenc::error::{SourceError, Verified, Verify};
use flacenc::source::{Context, Fill, FrameBuf, MemSource, Source};
use serde::{Deserialize, Serialize};

#[derive(Clone, Copy, Debug, PartialEq, Eq, Serialize, Deserialize)]
pub enum SrcKind {
    /// the crate's `MemSource` (with `len_hint`)
    Mem,
    /// `fill_interleaved`, no `len_hint`
    Int,
    /// `fill_le_bytes` with `(bps + 7) / 8` bytes per sample, no `len_hint`
    Bytes,
}

#[derive(Clone, Copy, Debug, PartialEq, Eq, Serialize, Deserialize)]
pub enum Fault {
    /// `read_samples` returns `Err` on the k-th call (0-based)
    ReadErr(usize),
    /// the k-th block contains one sample outside the declared width (at in-block offset `off`)
    Range(usize, usize),
    /// the k-th block is delivered through `fill_le_bytes` in containers one byte wider than `(bps + 7) / 8`
    /// (e.g. 24-bit audio in 4-byte containers): a `bytes_per_sample` that disagrees with the declared width
    Width(usize),
}

/// Test source. Contract followed: every read delivers exactly `block_size` inter-channel samples
/// except the last non-empty one; whole inter-channel samples only; one `fill_*` call per read.
pub struct TestSource<'a> {
    pub samples: &'a [i32],
    pub channels: usize,
    pub bps: usize,
    pub rate: usize,
    pub kind: SrcKind,
    pub pos: usize,
    pub reads: usize,
    pub faults: Vec<Fault>,
    /// at end of input: `true` = call `fill_*` with an empty slice, `false` = return 0 without filling
    pub fill_empty_at_end: bool,
    pub scratch: Vec<u8>,
    pub scratch_i: Vec<i32>,
    /// 0 = every read delivers a full block (except the last). p > 0 = the input arrives in packets of
    /// `p` inter-channel samples and a read never crosses a packet boundary (short reads in mid-stream;
    /// the `Source` documentation does not forbid them). Used only by the mode-differential checks.
    pub packet: usize,
    /// report the true length through `len_hint` (false: `None`, like a pipe)
    pub hint: bool,
}

impl<'a> TestSource<'a> {
    pub fn new(samples: &'a [i32], channels: usize, bps: usize, rate: usize, kind: SrcKind) -> Self {
        Self { samples, channels, bps, rate, kind, pos: 0, reads: 0, faults: vec![], fill_empty_at_end: true, scratch: vec![], scratch_i: vec![], packet: 0, hint: false }
    }
    pub fn with_faults(mut self, f: Vec<Fault>) -> Self {
        self.faults = f;
        self
    }
}

impl<'a> Source for TestSource<'a> {
    fn channels(&self) -> usize {
        self.channels
    }
    fn bits_per_sample(&self) -> usize {
        self.bps
    }
    fn sample_rate(&self) -> usize {
        self.rate
    }
    fn len_hint(&self) -> Option<usize> {
        if self.hint {
            Some(self.samples.len() / self.channels.max(1))
        } else {
            None
        }
    }
    fn read_samples<F: Fill>(&mut self, block_size: usize, dest: &mut F) -> Result<usize, SourceError> {
        let k = self.reads;
        self.reads += 1;
        if self.faults.iter().any(|f| *f == Fault::ReadErr(k)) {
            return Err(SourceError::from_unknown());
        }
        let ch = self.channels.max(1);
        let begin = self.pos.min(self.samples.len());
        let mut want = block_size;
        if self.packet > 0 {
            let t = begin / ch;
            want = want.min(self.packet - t % self.packet);
        }
        let end = (self.pos + want * ch).min(self.samples.len());
        let n = (end - begin) / ch;
        if n == 0 && !self.fill_empty_at_end {
            return Ok(0);
        }
        self.scratch_i.clear();
        self.scratch_i.extend_from_slice(&self.samples[begin..begin + n * ch]);
        for f in &self.faults {
            if let Fault::Range(fk, off) = f {
                if *fk == k && !self.scratch_i.is_empty() {
                    let i = off % self.scratch_i.len();
                    // smallest value above the declared width
                    self.scratch_i[i] = 1i32 << (self.bps - 1);
                }
            }
        }
        if self.faults.iter().any(|f| *f == Fault::Width(k)) {
            let nb = (self.bps + 7) / 8 + 1;
            self.scratch.clear();
            for x in &self.scratch_i {
                self.scratch.extend_from_slice(&(*x as i64).to_le_bytes()[..nb]);
            }
            dest.fill_le_bytes(&self.scratch, nb)?;
            self.pos = begin + n * ch;
            return Ok(n);
        }
        match self.kind {
            SrcKind::Mem | SrcKind::Int => dest.fill_interleaved(&self.scratch_i)?,
            SrcKind::Bytes => {
                let nb = (self.bps + 7) / 8;
                self.scratch.clear();
                for x in &self.scratch_i {
                    self.scratch.extend_from_slice(&x.to_le_bytes()[..nb]);
                }
                dest.fill_le_bytes(&self.scratch, nb)?;
            }
        }
        self.pos = begin + n * ch;
        Ok(n)
    }
}

/// Number of non-empty reads (= frames) a `TestSource` with packet size `packet` delivers.
pub fn frames_of(len: usize, block: usize, packet: usize) -> usize {
    if packet == 0 {
        return (len + block - 1) / block;
    }
    let (mut t, mut n) = (0usize, 0usize);
    while t < len {
        let want = block.min(packet - t % packet).min(len - t);
        t += want;
        n += 1;
    }
    n
}

pub fn verified(cfg: &CfgSpec) -> Result<Verified<config::Encoder>, String> {
    cfg.to_encoder().into_verified().map_err(|(_, e)| format!("{e}"))
}

/// Stream-level entry point.
pub fn encode_stream(cfg: &Verified<config::Encoder>, samples: &[i32], channels: usize, bps: usize, rate: usize, block: usize, kind: SrcKind) -> Result<Stream, String> {
    match kind {
        SrcKind::Mem => flacenc::encode_with_fixed_block_size(cfg, MemSource::from_samples(samples, channels, bps, rate), block),
        _ => flacenc::encode_with_fixed_block_size(cfg, TestSource::new(samples, channels, bps, rate, kind), block),
    }
    .map_err(|e| format!("{e:?}"))
}

/// Stream-level entry point with an explicit end-of-input behaviour of the test source.
pub fn encode_stream_eoi(cfg: &Verified<config::Encoder>, samples: &[i32], channels: usize, bps: usize, rate: usize, block: usize, kind: SrcKind, fill_empty_at_end: bool) -> Result<Stream, String> {
    let mut src = TestSource::new(samples, channels, bps, rate, if kind == SrcKind::Mem { SrcKind::Int } else { kind });
    src.fill_empty_at_end = fill_empty_at_end;
    flacenc::encode_with_fixed_block_size(cfg, src, block).map_err(|e| format!("{e:?}"))
}

/// Frame-level assembly as documented: FrameBuf + Context + encode_fixed_size_frame + add_frame.
pub fn encode_by_frames(cfg: &Verified<config::Encoder>, samples: &[i32], channels: usize, bps: usize, rate: usize, block: usize, kind: SrcKind) -> Result<(Stream, Vec<Frame>), String> {
    encode_by_frames_packet(cfg, samples, channels, bps, rate, block, kind, 0)
}

/// Same, from a source that delivers packets (short reads in mid-stream).
#[allow(clippy::too_many_arguments)]
pub fn encode_by_frames_packet(cfg: &Verified<config::Encoder>, samples: &[i32], channels: usize, bps: usize, rate: usize, block: usize, kind: SrcKind, packet: usize) -> Result<(Stream, Vec<Frame>), String> {
    let mut src = TestSource::new(samples, channels, bps, rate, if kind == SrcKind::Mem { SrcKind::Int } else { kind });
    src.packet = packet;
    let mut stream = Stream::new(rate, channels, bps).map_err(|e| format!("{e:?}"))?;
    // documented API use, varied deterministically with the input: the buffer is either created with the
    // block size or created larger / smaller and then `resize`d to it
    let mut fb = match samples.len() % 3 {
        0 => FrameBuf::with_size(channels, block).map_err(|e| format!("{e:?}"))?,
        1 if block + 7 <= 32767 => {
            let mut f = FrameBuf::with_size(channels, block + 7).map_err(|e| format!("{e:?}"))?;
            f.resize(block);
            f
        }
        _ => {
            let mut f = FrameBuf::with_size(channels, (block / 2).max(32)).map_err(|e| format!("{e:?}"))?;
            f.resize(block);
            f
        }
    };
    let mut ctx = Context::new(bps, channels);
    stream.stream_info_mut().set_block_sizes(block, block).map_err(|e| format!("{e:?}"))?;
    let mut frames = vec![];
    loop {
        let n = src.read_samples(block, &mut (&mut fb, &mut ctx)).map_err(|e| format!("{e:?}"))?;
        // a caller may look at the running digest / count at any time
        let _ = (ctx.md5_digest(), ctx.total_samples());
        if n == 0 {
            break;
        }
        let frame = flacenc::encode_fixed_size_frame(cfg, &fb, ctx.current_frame_number().unwrap(), stream.stream_info()).map_err(|e| format!("{e:?}"))?;
        frames.push(frame.clone());
        stream.add_frame(frame);
    }
    stream.stream_info_mut().set_md5_digest(&ctx.md5_digest());
    // `Stream::add_frame` accumulates the total (documented with `StreamInfo::update_frame_info`); a caller may rely
    // on that instead of copying the context's count
    if samples.len() % 4 != 3 {
        stream.stream_info_mut().set_total_samples(ctx.total_samples());
    }
    // like the stream-level entry point: with a fixed block size the bounds are (block, block)
    stream.stream_info_mut().set_block_sizes(block, block).map_err(|e| format!("{e:?}"))?;
    Ok((stream, frames))
}

/// Upper bound on a sane stream size in bits: raw PCM + 1 MiB.
pub fn sane_bits(n_samples_total: usize, bps: usize) -> usize {
    n_samples_total * (bps + 8) + 8 * (1 << 20)
}

/// Serialises with a size guard (the guard result is reported, never silently ignored).
pub fn stream_bytes(stream: &Stream, limit_bits: usize) -> Result<Vec<u8>, String> {
    let bits = stream.count_bits();
    if bits > limit_bits {
        return Err(format!("oversized: count_bits={bits} > guard {limit_bits}"));
    }
    let mut sink = ByteSink::with_capacity(bits);
    stream.write(&mut sink).map_err(|e| format!("write error: {e:?}"))?;
    Ok(sink.into_inner())
}

pub fn frame_bytes(frame: &Frame, limit_bits: usize) -> Result<Vec<u8>, String> {
    let bits = frame.count_bits();
    if bits > limit_bits {
        return Err(format!("oversized: count_bits={bits} > guard {limit_bits}"));
    }
    let mut sink = ByteSink::with_capacity(bits);
    frame.write(&mut sink).map_err(|e| format!("write error: {e:?}"))?;
    Ok(sink.into_inner())
}

pub fn claxon_decode(bytes: &[u8]) -> Result<(Vec<i32>, claxon::metadata::StreamInfo), String> {
    let mut r = claxon::FlacReader::new(std::io::Cursor::new(bytes)).map_err(|e| format!("open: {e:?}"))?;
    let info = r.streaminfo();
    let mut out = vec![];
    for x in r.samples() {
        out.push(x.map_err(|e| format!("sample: {e:?}"))?);
    }
    Ok((out, info))
}

pub fn new_stream_info(rate: usize, channels: usize, bps: usize) -> Result<StreamInfo, String> {
    StreamInfo::new(rate, channels, bps).map_err(|e| format!("{e:?}"))
}
