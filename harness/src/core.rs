//! Check context: evidence accumulation, known findings, generated-search and
//! enumeration drivers, replay files.

use crate::util::{fnv_str, mix};
use proptest::strategy::{Strategy, ValueTree};
use proptest::test_runner::{Config, RngAlgorithm, TestCaseError, TestError, TestRng, TestRunner};
use serde::de::DeserializeOwned;
use serde::Serialize;
use serde_json::{json, Value};
use std::collections::{BTreeMap, HashSet};
use std::sync::atomic::{AtomicBool, AtomicU64, Ordering};
use std::sync::Mutex;
use std::time::Instant;

pub const VERIF_ROOT: &str = "/verif";

#[derive(Clone, Copy, Debug, PartialEq, Eq)]
pub enum Tier {
    Quick,
    Thorough,
}

impl Tier {
    pub fn name(self) -> &'static str {
        match self {
            Tier::Quick => "quick",
            Tier::Thorough => "thorough",
        }
    }
    /// Scales a quick-tier count for the thorough tier.
    pub fn scale(self, quick: u32, factor: u32) -> u32 {
        match self {
            Tier::Quick => quick,
            Tier::Thorough => quick.saturating_mul(factor),
        }
    }
}

#[derive(Clone, Debug)]
pub struct Viol {
    /// Specific signature (panic location + message prefix, or oracle + distinguishing parameters).
    pub sig: String,
    pub detail: String,
}

impl Viol {
    pub fn new(sig: impl Into<String>, detail: impl Into<String>) -> Self {
        Self { sig: sig.into(), detail: detail.into() }
    }
}

/// Result of evaluating one case.
#[derive(Clone, Debug, Default)]
pub struct Outcome {
    pub classes: Vec<String>,
    pub nontrivial: bool,
    /// Fingerprint of the case (for distinct counting).
    pub fp: u64,
    pub viols: Vec<Viol>,
    pub inconclusive: Option<String>,
    /// Number of elementary evaluations this case stands for (default 1).
    pub weight: u64,
}

impl Outcome {
    pub fn new(fp: u64) -> Self {
        Self { fp, weight: 1, ..Default::default() }
    }
    pub fn class(&mut self, c: impl Into<String>) {
        self.classes.push(c.into());
    }
    pub fn viol(&mut self, sig: impl Into<String>, detail: impl Into<String>) {
        self.viols.push(Viol::new(sig, detail));
    }
    pub fn failed(&self) -> bool {
        !self.viols.is_empty()
    }
}

#[derive(Clone, Debug)]
pub struct KnownEntry {
    pub property: String,
    pub sig: String,
    pub text: String,
}

#[derive(Clone, Debug, Default)]
pub struct Known {
    pub entries: Vec<KnownEntry>,
}

impl Known {
    /// Parses `/verif/KNOWN_FINDINGS.txt`. Lines:
    /// `known: property=<id> sig=<signature...> :: <what fails>`
    /// `fixed: property=<id> <commit> <what failed>` (suppress nothing).
    pub fn load() -> Self {
        let mut k = Known::default();
        let path = format!("{VERIF_ROOT}/KNOWN_FINDINGS.txt");
        let Ok(s) = std::fs::read_to_string(path) else { return k };
        for line in s.lines() {
            let line = line.trim();
            let Some(rest) = line.strip_prefix("known:") else { continue };
            let rest = rest.trim();
            let Some(rest) = rest.strip_prefix("property=") else { continue };
            let (prop, rest) = rest.split_once(' ').unwrap_or((rest, ""));
            let Some(rest) = rest.trim().strip_prefix("sig=") else { continue };
            let (sig, text) = rest.split_once(" :: ").unwrap_or((rest, ""));
            k.entries.push(KnownEntry {
                property: prop.to_string(),
                sig: sig.trim().to_string(),
                text: text.trim().to_string(),
            });
        }
        k
    }
    pub fn matches(&self, prop: &str, sig: &str) -> Option<&KnownEntry> {
        self.entries.iter().find(|e| e.property == prop && sig.starts_with(&e.sig))
    }
}

pub struct Failure {
    pub label: String,
    pub sig: String,
    pub detail: String,
    pub case: Value,
}

pub struct Ctx {
    pub prop: &'static str,
    pub level: &'static str,
    pub tier: Tier,
    pub seed: u64,
    pub known: Known,
    pub start: Instant,
    pub evaluations: AtomicU64,
    pub distinct: Mutex<HashSet<u64>>,
    pub classes: Mutex<BTreeMap<String, u64>>,
    pub samples: Mutex<BTreeMap<String, Vec<Value>>>,
    pub excluded_known: Mutex<BTreeMap<String, u64>>,
    pub inconclusive: Mutex<Vec<String>>,
    pub failures: Mutex<Vec<Failure>>,
    pub rules: Mutex<Vec<String>>,
    pub assumptions: Mutex<Vec<String>>,
    pub extra: Mutex<BTreeMap<String, Value>>,
    pub exhaustive: AtomicBool,
    /// distinct non-trivial cases counted in bulk (complete enumerations: one per enumerated value)
    pub bulk_distinct: AtomicU64,
    pub stop: AtomicBool,
    pub shrinker_taken: AtomicBool,
    pub shrink_iters: std::sync::atomic::AtomicU32,
    pub strict: bool,
}

impl Ctx {
    pub fn new(prop: &'static str, level: &'static str, tier: Tier, seed: u64) -> Self {
        Self {
            prop,
            level,
            tier,
            seed,
            known: Known::load(),
            start: Instant::now(),
            evaluations: AtomicU64::new(0),
            distinct: Mutex::new(HashSet::new()),
            classes: Mutex::new(BTreeMap::new()),
            samples: Mutex::new(BTreeMap::new()),
            excluded_known: Mutex::new(BTreeMap::new()),
            inconclusive: Mutex::new(vec![]),
            failures: Mutex::new(vec![]),
            rules: Mutex::new(vec![]),
            assumptions: Mutex::new(vec![]),
            extra: Mutex::new(BTreeMap::new()),
            exhaustive: AtomicBool::new(false),
            bulk_distinct: AtomicU64::new(0),
            stop: AtomicBool::new(false),
            shrinker_taken: AtomicBool::new(false),
            shrink_iters: std::sync::atomic::AtomicU32::new(1500),
            strict: false,
        }
    }

    pub fn rule(&self, s: &str) {
        self.rules.lock().unwrap().push(s.to_string());
    }
    pub fn assume(&self, s: &str) {
        self.assumptions.lock().unwrap().push(s.to_string());
    }
    pub fn set_extra(&self, k: &str, v: Value) {
        self.extra.lock().unwrap().insert(k.to_string(), v);
    }
    pub fn bump(&self, class: &str, n: u64) {
        *self.classes.lock().unwrap().entry(class.to_string()).or_default() += n;
    }

    /// Records a passing / excluded outcome; returns the violations that are *not* known.
    pub fn record<C: Serialize>(&self, label: &str, case: &C, out: &Outcome) -> Vec<Viol> {
        self.evaluations.fetch_add(out.weight.max(1), Ordering::Relaxed);
        {
            // one count per case and class
            let mut seen: Vec<&String> = vec![];
            let mut cl = self.classes.lock().unwrap();
            for c in &out.classes {
                if !seen.contains(&c) {
                    seen.push(c);
                    *cl.entry(c.clone()).or_default() += 1;
                }
            }
        }
        if let Some(r) = &out.inconclusive {
            let mut g = self.inconclusive.lock().unwrap();
            if g.len() < 50 {
                g.push(format!("{label}: {r}"));
            }
        }
        let mut fresh = vec![];
        for v in &out.viols {
            if !self.strict {
                if let Some(e) = self.known.matches(self.prop, &v.sig) {
                    *self.excluded_known.lock().unwrap().entry(e.sig.clone()).or_default() += 1;
                    continue;
                }
            }
            fresh.push(v.clone());
        }
        if fresh.is_empty() && out.nontrivial {
            let newly = self.distinct.lock().unwrap().insert(mix(out.fp, fnv_str(label)));
            if newly {
                let mut s = self.samples.lock().unwrap();
                let v = s.entry(label.to_string()).or_default();
                if v.len() < 3 {
                    v.push(json!({"kind": label, "case": serde_json::to_value(case).unwrap_or(Value::Null), "classes": out.classes}));
                }
            }
        }
        fresh
    }

    pub fn fail<C: Serialize>(&self, label: &str, case: &C, v: &Viol) {
        let mut f = self.failures.lock().unwrap();
        f.push(Failure {
            label: label.to_string(),
            sig: v.sig.clone(),
            detail: v.detail.clone(),
            case: serde_json::to_value(case).unwrap_or(Value::Null),
        });
        self.stop.store(true, Ordering::SeqCst);
    }

    /// Generated search: `threads` independent proptest runners, each with its own seed stream.
    pub fn search<C, S, F>(&self, label: &str, threads: usize, cases_per_thread: u32, strat: &(dyn Fn() -> S + Sync), check: F)
    where
        C: std::fmt::Debug + Clone + Serialize + Send,
        S: Strategy<Value = C>,
        F: Fn(&C) -> Outcome + Sync,
    {
        if self.stop.load(Ordering::SeqCst) {
            return;
        }
        let label_h = fnv_str(label) ^ fnv_str(self.prop);
        std::thread::scope(|sc| {
            for ti in 0..threads {
                let check = &check;
                sc.spawn(move || {
                    let mut seed = [0u8; 32];
                    let mut s = crate::util::Sm64(mix(self.seed, mix(label_h, ti as u64)));
                    for ch in seed.chunks_mut(8) {
                        ch.copy_from_slice(&s.next().to_le_bytes());
                    }
                    let cfg = Config {
                        cases: cases_per_thread,
                        failure_persistence: None,
                        max_shrink_iters: self.shrink_iters.load(Ordering::Relaxed),
                        max_global_rejects: 100_000,
                        ..Config::default()
                    };
                    let mut runner = TestRunner::new_with_rng(cfg, TestRng::from_seed(RngAlgorithm::ChaCha, &seed));
                    let i_failed = AtomicBool::new(false);
                    let last_viol: Mutex<Option<Viol>> = Mutex::new(None);
                    let res = runner.run(&strat(), |case| {
                        let shrinking = i_failed.load(Ordering::SeqCst);
                        if !shrinking && self.stop.load(Ordering::SeqCst) {
                            return Ok(());
                        }
                        let out = guarded(&check, &case);
                        let fresh = if shrinking {
                            // while shrinking do not touch evidence counters
                            out.viols
                                .iter()
                                .filter(|v| self.strict || self.known.matches(self.prop, &v.sig).is_none())
                                .cloned()
                                .collect::<Vec<_>>()
                        } else {
                            self.record(label, &case, &out)
                        };
                        if let Some(v) = fresh.first() {
                            // keep shrinking on the *same* signature only
                            let mut lv = last_viol.lock().unwrap();
                            if shrinking {
                                let want = lv.as_ref().map(|x| x.sig.clone()).unwrap_or_default();
                                if let Some(same) = fresh.iter().find(|x| x.sig == want) {
                                    *lv = Some(same.clone());
                                    return Err(TestCaseError::fail(same.sig.clone()));
                                }
                                return Ok(());
                            }
                            // only the first failing runner shrinks; the others give up
                            if self.shrinker_taken.swap(true, Ordering::SeqCst) {
                                self.stop.store(true, Ordering::SeqCst);
                                return Ok(());
                            }
                            *lv = Some(v.clone());
                            i_failed.store(true, Ordering::SeqCst);
                            self.stop.store(true, Ordering::SeqCst);
                            return Err(TestCaseError::fail(v.sig.clone()));
                        }
                        Ok(())
                    });
                    match res {
                        Ok(()) => {}
                        Err(TestError::Fail(_, case)) => {
                            let v = last_viol.lock().unwrap().clone().unwrap_or(Viol::new("?", "?"));
                            self.fail(label, &case, &v);
                        }
                        Err(TestError::Abort(r)) => {
                            self.inconclusive.lock().unwrap().push(format!("{label}: proptest abort: {r}"));
                        }
                    }
                });
            }
        });
    }

    /// Complete enumeration of `0..n` (index -> case), in parallel. Reports the lowest failing index.
    pub fn enumerate<C, G, F>(&self, label: &str, threads: usize, n: u64, make: G, check: F)
    where
        C: Serialize + Send,
        G: Fn(u64) -> C + Sync,
        F: Fn(&C) -> Outcome + Sync,
    {
        if self.stop.load(Ordering::SeqCst) {
            return;
        }
        let next = AtomicU64::new(0);
        let first_fail: Mutex<Option<(u64, Viol)>> = Mutex::new(None);
        let chunk = (n / (threads as u64 * 64)).clamp(1, 4096);
        std::thread::scope(|sc| {
            for _ in 0..threads {
                sc.spawn(|| loop {
                    let a = next.fetch_add(chunk, Ordering::Relaxed);
                    if a >= n {
                        break;
                    }
                    if first_fail.lock().unwrap().is_some() {
                        break;
                    }
                    for i in a..(a + chunk).min(n) {
                        let case = make(i);
                        let out = guarded(&check, &case);
                        let fresh = self.record(label, &case, &out);
                        if let Some(v) = fresh.first() {
                            let mut ff = first_fail.lock().unwrap();
                            if ff.as_ref().map_or(true, |(j, _)| i < *j) {
                                *ff = Some((i, v.clone()));
                            }
                            break;
                        }
                    }
                });
            }
        });
        if let Some((i, v)) = first_fail.into_inner().unwrap() {
            let case = make(i);
            self.fail(label, &case, &v);
        }
    }

    /// Complete enumeration that does NOT stop at the first failure: every index is evaluated and the
    /// lowest failing index of every distinct signature is reported (grids with several root causes).
    pub fn enumerate_all<C, G, F>(&self, label: &str, threads: usize, n: u64, make: G, check: F)
    where
        C: Serialize + Send,
        G: Fn(u64) -> C + Sync,
        F: Fn(&C) -> Outcome + Sync,
    {
        let next = AtomicU64::new(0);
        let fails: Mutex<BTreeMap<String, (u64, Viol)>> = Mutex::new(BTreeMap::new());
        let chunk = (n / (threads as u64 * 64)).clamp(1, 4096);
        std::thread::scope(|sc| {
            for _ in 0..threads {
                sc.spawn(|| loop {
                    let a = next.fetch_add(chunk, Ordering::Relaxed);
                    if a >= n {
                        break;
                    }
                    for i in a..(a + chunk).min(n) {
                        let case = make(i);
                        let out = guarded(&check, &case);
                        for v in self.record(label, &case, &out) {
                            let mut ff = fails.lock().unwrap();
                            match ff.get(&v.sig) {
                                Some((j, _)) if *j <= i => {}
                                _ => {
                                    ff.insert(v.sig.clone(), (i, v.clone()));
                                }
                            }
                        }
                    }
                });
            }
        });
        for (_sig, (i, v)) in fails.into_inner().unwrap() {
            let case = make(i);
            let mut f = self.failures.lock().unwrap();
            f.push(Failure { label: label.to_string(), sig: v.sig.clone(), detail: v.detail.clone(), case: serde_json::to_value(&case).unwrap_or(Value::Null) });
        }
    }

    /// Writes evidence, prints KNOWN-FINDING / VIOLATION lines and returns the exit code.
    pub fn finish(&self) -> i32 {
        let wall = self.start.elapsed().as_secs_f64();
        let failures = self.failures.lock().unwrap();
        let mut code = 0;
        let mut printed = HashSet::new();
        for f in failures.iter() {
            if !printed.insert(f.sig.clone()) {
                continue;
            }
            let dir = format!("{VERIF_ROOT}/replays/{}", self.prop);
            let _ = std::fs::create_dir_all(&dir);
            let path = format!("{dir}/found-{:016x}.json", fnv_str(&f.sig));
            let body = json!({
                "property": self.prop,
                "kind": f.label,
                "sig": f.sig,
                "detail": f.detail,
                "seed": self.seed,
                "case": f.case,
            });
            let _ = std::fs::write(&path, serde_json::to_string_pretty(&body).unwrap());
            println!("VIOLATION property={} replay={}", self.prop, path);
            println!("  signature: {}", f.sig);
            println!("  detail: {}", f.detail.chars().take(600).collect::<String>());
            code = 1;
        }
        let excluded = self.excluded_known.lock().unwrap();
        for e in &self.known.entries {
            if e.property == self.prop {
                println!(
                    "KNOWN-FINDING: property={} {} [sig={}; matched {} case(s) in this run]",
                    self.prop,
                    e.text,
                    e.sig,
                    excluded.get(&e.sig).copied().unwrap_or(0)
                );
            }
        }
        let inconc = self.inconclusive.lock().unwrap();
        let distinct = self.distinct.lock().unwrap().len() as u64 + self.bulk_distinct.load(Ordering::Relaxed);
        let mut samples: Vec<Value> = vec![];
        for (_k, v) in self.samples.lock().unwrap().iter() {
            for s in v.iter().take(2) {
                if samples.len() < 8 {
                    samples.push(s.clone());
                }
            }
        }
        let mut cov = serde_json::Map::new();
        cov.insert("evaluations".into(), json!(self.evaluations.load(Ordering::Relaxed)));
        cov.insert("distinct_nontrivial".into(), json!(distinct));
        cov.insert("rule".into(), json!(self.rules.lock().unwrap().join(" | ")));
        cov.insert("samples".into(), Value::Array(samples));
        cov.insert("classes".into(), json!(*self.classes.lock().unwrap()));
        cov.insert("excluded_known".into(), json!(*excluded));
        cov.insert("inconclusive".into(), json!(*inconc));
        cov.insert("exhaustive".into(), json!(self.exhaustive.load(Ordering::Relaxed)));
        for (k, v) in self.extra.lock().unwrap().iter() {
            cov.insert(k.clone(), v.clone());
        }
        let ev = json!({
            "property_id": self.prop,
            "tier": self.tier.name(),
            "seed": self.seed,
            "level": self.level,
            "coverage": Value::Object(cov),
            "assumptions": *self.assumptions.lock().unwrap(),
            "wall_s": wall,
            "violations": failures.len(),
        });
        let dir = format!("{VERIF_ROOT}/evidence");
        let _ = std::fs::create_dir_all(&dir);
        let suffix = std::env::var("VH_EVIDENCE_SUFFIX").unwrap_or_default();
        let path = format!("{dir}/{}{suffix}.json", self.prop);
        let _ = std::fs::write(&path, serde_json::to_string_pretty(&ev).unwrap());
        if code == 0 && !inconc.is_empty() {
            println!("INCONCLUSIVE property={} ({} case(s)): {}", self.prop, inconc.len(), inconc[0]);
            code = 2;
        }
        println!(
            "{} {}: evaluations={} distinct_nontrivial={} violations={} wall={:.1}s exit={}",
            self.prop,
            self.tier.name(),
            self.evaluations.load(Ordering::Relaxed),
            distinct,
            failures.len(),
            wall,
            code
        );
        code
    }
}

/// Runs a check; a panic that escapes the check's own handling is reported, never propagated.
pub fn guarded<C>(check: &impl Fn(&C) -> Outcome, case: &C) -> Outcome {
    match crate::util::catch(|| check(case)) {
        Ok(o) => o,
        Err(p) => {
            let mut o = Outcome::new(0);
            if p.loc.starts_with("src/") {
                o.inconclusive = Some(format!("harness bug: panic in the harness itself at {}: {}", p.loc, p.msg));
            } else {
                o.viol(format!("uncaught-{}", p.sig()), format!("panic in library code called by the check: {} at {}", p.msg, p.loc));
            }
            o
        }
    }
}

/// Loads the `case` of a replay file.
pub fn load_replay<C: DeserializeOwned>(path: &str) -> Result<(String, C), String> {
    let s = std::fs::read_to_string(path).map_err(|e| format!("{path}: {e}"))?;
    let v: Value = serde_json::from_str(&s).map_err(|e| format!("{path}: {e}"))?;
    let kind = v.get("kind").and_then(|k| k.as_str()).unwrap_or("").to_string();
    let case = v.get("case").cloned().ok_or("no case in replay file")?;
    let c: C = serde_json::from_value(case).map_err(|e| format!("{path}: case does not parse: {e}"))?;
    Ok((kind, c))
}

pub fn replay_kind(path: &str) -> Result<(String, Value), String> {
    let s = std::fs::read_to_string(path).map_err(|e| format!("{path}: {e}"))?;
    let v: Value = serde_json::from_str(&s).map_err(|e| format!("{path}: {e}"))?;
    let kind = v.get("kind").and_then(|k| k.as_str()).unwrap_or("").to_string();
    let case = v.get("case").cloned().ok_or("no case in replay file")?;
    Ok((kind, case))
}

/// Used by `--replay`: evaluates one case and prints the outcome. Returns exit code.
pub fn report_replay(prop: &str, path: &str, out: &Outcome, known: &Known) -> i32 {
    let mut code = 0;
    for v in &out.viols {
        if let Some(e) = known.matches(prop, &v.sig) {
            println!("KNOWN-FINDING: property={prop} {} [sig={}]", e.text, e.sig);
        } else {
            println!("VIOLATION property={prop} replay={path}");
            println!("  signature: {}", v.sig);
            println!("  detail: {}", v.detail.chars().take(2000).collect::<String>());
            code = 1;
        }
    }
    if let Some(r) = &out.inconclusive {
        println!("INCONCLUSIVE: {r}");
        if code == 0 {
            code = 2;
        }
    }
    if code == 0 {
        println!("replay {path}: property {prop} holds on this case (classes {:?})", out.classes);
    }
    code
}

#[allow(dead_code)]
pub fn unused_valuetree<T: ValueTree>(_t: T) {}
