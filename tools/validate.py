#!/opt/veriftools/pyvenv/bin/python
"""Validates MANIFEST.json and every evidence file against the task's schemas."""
import json, sys, glob
import jsonschema
ok = True
def check(path, schema):
    global ok
    try:
        jsonschema.validate(json.load(open(path)), json.load(open(schema)))
        print("ok  ", path)
    except Exception as e:
        ok = False
        print("FAIL", path, str(e).splitlines()[0])
check("/verif/MANIFEST.json", "/root/.vp/MANIFEST.schema.json")
m = json.load(open("/verif/MANIFEST.json"))
for c in m["checks"]:
    check(c["evidence_file"], "/root/.vp/EVIDENCE.schema.json")
ids = [json.loads(l)["id"] for l in open("/verif/properties.jsonl")]
claimed = {c["property_id"] for c in m["checks"]}
na = {n["property_id"] for n in m.get("not_applicable", [])}
for i in ids:
    if (i in claimed) == (i in na):
        ok = False
        print("FAIL", i, "must be exactly one of claimed / not_applicable")
sys.exit(0 if ok else 1)
