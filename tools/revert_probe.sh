#!/bin/sh
# usage: tools/revert_probe.sh <repo-commit> <Cxx> [tier]
# Sensitivity probe: reverse-applies one /repo commit to the working tree, runs a check, restores the tree.
C="$1"; P="$2"; T="${3:-quick}"
cd /repo || exit 2
git diff --quiet || { echo "repo working tree not clean"; exit 2; }
git diff "$C^" "$C" | git apply -R || { echo "cannot reverse-apply $C"; git checkout -- .; exit 2; }
cd /verif && VH_KEEP_FOUND=1 ./check "$P" --tier "$T" 2>&1 | grep -E "^VIOLATION|signature|exit=|INCONCLUSIVE" | cut -c1-220 | head -12
cd /repo && git checkout -- . && git status --short | head -3
