#!/bin/sh
# Runs the quick (or $1) tier of every registered check; prints one line per check.
TIER="${1:-quick}"
cd /verif
for p in $(python3 -c "import json; print(' '.join(c['property_id'] for c in json.load(open('/verif/MANIFEST.json'))['checks']))"); do
  s=$(date +%s)
  ./check "$p" --tier "$TIER" > "work/runall-$p.log" 2>&1
  rc=$?
  e=$(date +%s)
  echo "$p rc=$rc $((e-s))s $(grep -c '^VIOLATION' work/runall-$p.log) violation(s) $(tail -n1 work/runall-$p.log)"
done
