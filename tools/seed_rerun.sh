#!/bin/sh
# Re-runs every kept seeded defect (/verif/seeded/<id>/patch.diff) against the check of the property it
# breaks: apply to /repo, run, restore. One line per defect; exit 1 if any is missed.
# usage: tools/seed_rerun.sh [tier] [id-prefix]
T="${1:-quick}"; PFX="${2:-}"
cd /repo && git diff --quiet || { echo "/repo working tree not clean"; exit 2; }
missed=0
for d in /verif/seeded/${PFX}*/; do
  id=$(basename "$d"); prop=${id%%-*}
  case "$prop" in F*|A*|M*) prop=$(python3 -c "import json;print(json.load(open('$d/meta.json'))['breaks_property'])");; esac
  cd /repo && git apply "$d/patch.diff" || { echo "$id: patch does not apply"; git checkout -- .; missed=1; continue; }
  cd /verif && ./check "$prop" --tier "$T" > "work/seed-$id.log" 2>&1; rc=$?
  cd /repo && git checkout -- .
  echo "$id $prop rc=$rc $(grep -m1 signature /verif/work/seed-$id.log | cut -c1-120)"
  [ "$rc" = 1 ] || missed=1
done
exit $missed
