#!/bin/sh
# Silence check: every quick tier with several VERIF_SEEDs on the current tree; prints only non-zero results.
for seed in "$@"; do
  export VERIF_SEED=$seed
  sh /verif/tools/runall.sh quick > /verif/work/seeds-$seed.out 2>&1
  bad=$(grep -v "rc=0" /verif/work/seeds-$seed.out | wc -l)
  echo "seed $seed: $(grep -c 'rc=0' /verif/work/seeds-$seed.out) ok, $bad not ok"
  grep -v "rc=0" /verif/work/seeds-$seed.out
done
