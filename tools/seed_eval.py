#!/usr/bin/env python3
"""Confirms one seeded defect and runs the checks against it.

usage: tools/seed_eval.py <Cxx> <a|b> [--checks C04,C01,...] [--skip-confirm] [--tier quick]

1. confirmation in the scratch worktree /tmp/seed/<Cxx> (never in /repo):
   unchanged tree: the demonstration passes; with the patch: the crate builds (three feature sets),
   the repository's own test suite passes, the demonstration fails.
2. detection: the patch is applied to /repo's working tree, the given checks (default: the
   property's own check) run, the tree is restored (git checkout -- .).
3. the defect is stored as /verif/seeded/<Cxx>-<a|b>/ {patch.diff, demo.rs, NOTES.md, meta.json}.
"""
import json, os, re, shutil, subprocess, sys, time

def sh(cmd, cwd=None, timeout=3600):
    p = subprocess.run(cmd, shell=True, cwd=cwd, capture_output=True, text=True, timeout=timeout)
    return p.returncode, p.stdout + p.stderr

def main():
    pid, which = sys.argv[1], sys.argv[2]
    args = sys.argv[3:]
    checks = [pid]
    tier = "quick"
    skip_confirm = "--skip-confirm" in args
    repo_patch = None
    for i, a in enumerate(args):
        if a == "--repo-patch":
            repo_patch = args[i + 1]
        if a == "--checks":
            checks = args[i + 1].split(",")
        if a == "--tier":
            tier = args[i + 1]
    wt = f"/tmp/seed/{pid}"
    src = f"/tmp/seed/{pid}-out/{which}"
    sid = f"{pid}-{which}"
    dst = f"/verif/seeded/{sid}"
    patch = f"{src}/patch.diff"
    demo_name = f"demo_{pid.lower()}_{which}"
    meta = {"id": sid, "breaks_property": pid, "source": "independent sub-agent given only the property text and a scratch worktree", "confirmed": {}, "detection": {}}
    notes = open(f"{src}/NOTES.md").read() if os.path.exists(f"{src}/NOTES.md") else ""
    if pid.startswith(("F", "A", "M")):
        # file-based round: the first line of NOTES.md names the broken properties
        m = re.search(r"BREAKS:\s*([C0-9, ]+)", notes)
        broken = [x.strip() for x in m.group(1).split(",") if x.strip()] if m else []
        if not broken:
            print(f"[{sid}] no BREAKS line in NOTES.md")
            sys.exit(2)
        meta["breaks_property"] = broken[0]
        meta["also_breaks"] = broken[1:]
        if "--checks" not in args:
            checks = broken
    needs_decode = "cfg(feature = \"decode\")" in open(f"{src}/demo.rs").read()
    feat = " --features decode" if needs_decode else ""
    if 'cfg(feature = "experimental")' in open(f"{src}/demo.rs").read():
        feat = " --features experimental"
    for i, a in enumerate(args):
        if a == "--features":
            feat = " --features " + args[i + 1]
    for i, a in enumerate(args):
        if a == "--cargo-flags":
            feat = " " + args[i + 1]
    needs_hook = "flacenc_verif" in open(f"{src}/demo.rs").read()
    demo_env = "RUSTFLAGS='--cfg flacenc_verif' " if needs_hook else ""
    if needs_hook:
        feat += " --target-dir target-verif"
    demo_sh = os.path.exists(f"{src}/demo.sh")
    if not skip_confirm and demo_sh:
        # demonstration = script that builds an example with two feature sets and compares digests
        sh("git checkout -- src", cwd=wt)
        os.makedirs(f"{wt}/examples", exist_ok=True)
        shutil.copy(f"{src}/demo.rs", f"{wt}/examples/{demo_name}.rs")
        rc0, out0 = sh(f"sh {src}/demo.sh {wt} 2>&1 | tail -n 12", cwd=wt)
        rc0b, _ = sh(f"sh {src}/demo.sh {wt} >/dev/null 2>&1", cwd=wt)
        ok0 = rc0b == 0
        meta["confirmed"]["demo_passes_on_unchanged_tree"] = ok0
        rc, out = sh(f"git apply {patch}", cwd=wt)
        builds = {}
        for name, flags in [("default", ""), ("no-default-features", "--no-default-features"), ("decode", "--features decode")]:
            rcb, outb = sh(f"cargo build --offline -j 8 {flags} 2>&1 | tail -n 3", cwd=wt)
            builds[name] = "Finished" in outb
        meta["confirmed"]["builds"] = builds
        rcs, outs = sh("cargo test --workspace --no-fail-fast --offline -j 8 --lib 2>&1 | grep -E '^test result|FAILED|failed' | head", cwd=wt)
        m = re.search(r"test result: (\w+)\. (\d+) passed; (\d+) failed", outs)
        suite_ok = bool(m) and m.group(1) == "ok" and m.group(2) == "163"
        rc1, out1 = sh(f"sh {src}/demo.sh {wt} 2>&1 | tail -n 12; sh {src}/demo.sh {wt} >/dev/null 2>&1; echo EXIT=$?", cwd=wt)
        fails1 = "EXIT=1" in out1
        meta["confirmed"]["demo_fails_with_patch"] = fails1
        meta["confirmed"]["suite_163_pass_with_patch"] = suite_ok
        sh("git checkout -- src", cwd=wt)
        print(f"[{sid}] confirm (demo.sh): ok on base={ok0} builds={builds} suite ok={suite_ok} demo fails with patch={fails1}")
        if not (ok0 and all(builds.values()) and suite_ok and fails1):
            print(f"[{sid}] NOT CONFIRMED; not kept")
            print(out0[-600:], outs[-600:], out1[-600:])
            sys.exit(3)
    if not skip_confirm and not demo_sh:
        sh("git checkout -- src", cwd=wt)
        os.makedirs(f"{wt}/tests", exist_ok=True)
        for old in __import__("glob").glob(f"{wt}/tests/demo_*.rs"):
            os.remove(old)
        shutil.copy(f"{src}/demo.rs", f"{wt}/tests/{demo_name}.rs")
        rc0, out0 = sh(f"{demo_env}cargo test --offline -j 8{feat} --test {demo_name} 2>&1 | tail -n 15", cwd=wt)
        ok0 = "test result: ok" in out0 and "FAILED" not in out0 and "0 passed" not in out0
        meta["confirmed"]["demo_passes_on_unchanged_tree"] = ok0
        rc, out = sh(f"git apply {patch}", cwd=wt)
        if rc != 0:
            print("patch does not apply:", out)
            sys.exit(2)
        builds = {}
        for name, flags in [("default", ""), ("no-default-features", "--no-default-features"), ("decode", "--features decode")]:
            rcb, outb = sh(f"cargo build --offline -j 8 {flags} 2>&1 | tail -n 3", cwd=wt)
            builds[name] = "Finished" in outb
        meta["confirmed"]["builds"] = builds
        # move the demo out of the way while the repository's own suite runs (it is not part of it)
        rcs, outs = sh("cargo test --workspace --no-fail-fast --offline -j 8 --lib 2>&1 | grep -E '^test result|FAILED|failed' | head", cwd=wt)
        m = re.search(r"test result: (\w+)\. (\d+) passed; (\d+) failed", outs)
        meta["confirmed"]["suite_with_patch"] = outs.strip().splitlines()[:3]
        suite_ok = bool(m) and m.group(1) == "ok" and m.group(2) == "163"
        rc1, out1 = sh(f"{demo_env}cargo test --offline -j 8{feat} --test {demo_name} 2>&1 | tail -n 25", cwd=wt)
        fails1 = "FAILED" in out1 or "test result: FAILED" in out1
        meta["confirmed"]["demo_fails_with_patch"] = fails1
        meta["confirmed"]["suite_163_pass_with_patch"] = suite_ok
        sh("git checkout -- src", cwd=wt)
        print(f"[{sid}] confirm: demo ok on base={ok0} builds={builds} suite ok={suite_ok} demo fails with patch={fails1}")
        if not (ok0 and all(builds.values()) and suite_ok and fails1):
            print(f"[{sid}] NOT CONFIRMED; not kept")
            print(out0[-600:], outs[-600:], out1[-600:])
            sys.exit(3)
    if "--confirm-only" in args:
        os.makedirs(dst, exist_ok=True)
        shutil.copy(patch, f"{dst}/patch.diff")
        shutil.copy(f"{src}/demo.rs", f"{dst}/demo.rs")
        if notes:
            open(f"{dst}/NOTES.md", "w").write(notes)
        meta["needs_to_manifest"] = "see NOTES.md section (2)"
        meta["ran"] = [f"cargo test --offline{feat} --test {demo_name} (scratch worktree, with and without the patch)", "cargo test --workspace --no-fail-fast --offline --lib (scratch worktree, with the patch)", "cargo build --offline with default / --no-default-features / --features decode (with the patch)"]
        json.dump(meta, open(f"{dst}/meta.json", "w"), indent=1)
        sys.exit(0)
    # detection against /repo
    rc, out = sh("git diff --quiet", cwd="/repo")
    if rc != 0:
        print("/repo working tree is not clean")
        sys.exit(2)
    rc, out = sh(f"git apply {repo_patch or patch}", cwd="/repo")
    if rc != 0:
        print("patch does not apply to /repo:", out)
        sys.exit(2)
    try:
        for c in checks:
            t0 = time.time()
            rcc, outc = sh(f"./check {c} --tier {tier}", cwd="/verif", timeout=7200)
            sigs = re.findall(r"signature: (.*)", outc)
            meta["detection"][c] = {"tier": tier, "exit": rcc, "violations": outc.count("VIOLATION property="), "signatures": [s[:160] for s in sigs[:4]], "wall_s": round(time.time() - t0, 1)}
            print(f"[{sid}] {c} {tier}: exit={rcc} {sigs[:2]} {round(time.time()-t0,1)}s")
    finally:
        sh("git checkout -- .", cwd="/repo")
    os.makedirs(dst, exist_ok=True)
    shutil.copy(repo_patch or patch, f"{dst}/patch.diff")
    if repo_patch:
        shutil.copy(patch, f"{dst}/patch.as-delivered.diff")
        meta["note"] = "patch.diff is the sub-agent's change re-based onto the current /repo HEAD (a later fix: commit touched the same line); patch.as-delivered.diff is the change as delivered and confirmed in the scratch worktree"
    shutil.copy(f"{src}/demo.rs", f"{dst}/demo.rs")
    if os.path.exists(f"{src}/demo.sh"):
        shutil.copy(f"{src}/demo.sh", f"{dst}/demo.sh")
    if notes:
        open(f"{dst}/NOTES.md", "w").write(notes)
    old = {}
    if os.path.exists(f"{dst}/meta.json"):
        old = json.load(open(f"{dst}/meta.json"))
        if skip_confirm:
            meta["confirmed"] = old.get("confirmed", {})
        d = old.get("detection", {})
        d.update(meta["detection"])
        meta["detection"] = d
    meta["needs_to_manifest"] = old.get("needs_to_manifest", "see NOTES.md section (2)")
    if old.get("history"):
        now = "; ".join(f"{c}: exit {d['exit']} {d['signatures'][:1]}" for c, d in meta["detection"].items() if c in checks)
        meta["history"] = old["history"] + (f" | re-run: {now}" if skip_confirm else "")
    meta["ran"] = [f"cargo test --offline{feat} --test {demo_name} (scratch worktree, with and without the patch)", "cargo test --workspace --no-fail-fast --offline --lib (scratch worktree, with the patch)", "cargo build --offline with default / --no-default-features / --features decode (with the patch)", f"git -C /repo apply patch.diff; ./check <id> --tier {tier}; git -C /repo checkout -- ."]
    json.dump(meta, open(f"{dst}/meta.json", "w"), indent=1)

main()
