#!/bin/sh
# usage: tools/patch_probe.sh <patch.diff> <Cxx> [<Cyy> ...]   (tier from $TIER, default quick)
# Applies a patch to /repo's working tree, runs the given checks, and restores the tree.
PATCH="$1"; shift
T="${TIER:-quick}"
cd /repo || exit 2
git diff --quiet || { echo "repo working tree not clean"; exit 2; }
git apply "$PATCH" || { echo "cannot apply $PATCH"; git checkout -- .; exit 2; }
for P in "$@"; do
  cd /verif && ./check "$P" --tier "$T" > "work/probe-$P.log" 2>&1
  rc=$?
  echo "[$P rc=$rc] $(grep -c '^VIOLATION' work/probe-$P.log) violation line(s); $(grep -m3 'signature' work/probe-$P.log | cut -c1-160 | tr '\n' '|') $(tail -n1 work/probe-$P.log | cut -c1-120)"
done
cd /repo && git checkout -- . && git status --short | head -3
