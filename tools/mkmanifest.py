#!/usr/bin/env python3
"""Writes /verif/MANIFEST.json from the table below (kept next to the checks it describes)."""
import json, subprocess, sys

CHECKS = {
 "C01": dict(cat="exploration", ref="DESIGN.md 4/C01", tech="property-based round-trip testing: proptest-generated (config, PCM, entry point) cases against an independent RFC 9639 reference decoder and claxon",
   text="Generated-input search (proptest, 16 seeded runners) over valid configurations x PCM inputs x {single-thread, multi-thread, frame-level} x {MemSource, integer, byte sources}; oracle = harness' own RFC 9639 decoder (samples, format, length must equal the input) cross-checked with claxon; frames of the frame-level entry point are also decoded one by one. Sampling, not proof: bounds are the generator's (<= 24k samples per case in quick, 120k in thorough).",
   note="Trusts the harness' reference decoder (cross-checked with claxon on every case) and the sample generator; multi-thread runs use real threads (schedules are explored under C05/C06)."),
 "C09": dict(cat="exploration", ref="DESIGN.md 4/C09", tech="property-based testing with a size-bound validity predicate on generated loud/heavy-tailed inputs and restricted Rice ranges",
   text="Generated-input search re-weighted to the mechanisms that inflate frames (20/24-bit loud, burst and heavy-tailed signals, max_parameter 0..8, ApproxEnt with few partitions); per-frame oracle bytes <= header + verbatim subframes + 2 + 2*channels evaluated from count_bits before writing and again on the emitted byte ranges found by the reference decoder; per-stream bound likewise.",
   note="count_bits is used to refuse serialising gigabyte frames (its exactness is property C08); encode panics are left to C01."),
 "C13": dict(cat="exploration", ref="DESIGN.md 4/C13", tech="property-based differential testing of every emitted residual against a brute-force Rice optimiser",
   text="For every FIXED/LPC residual of generated streams the coded size computed from the emitted parameters and values must equal the minimum found by brute force over the encoder's documented search space (orders 0..finest, parameters 0..max_parameter) whenever that minimum is below 2^28.",
   note="Search space model (partitions >= max(64, order), block divisibility) taken from the property statement; ties on cost are accepted, parameters are not compared."),
 "C02": dict(cat="exploration", ref="DESIGN.md 4/C02", tech="property-based testing with a strict RFC 9639 validity predicate on generated streams, plus exhaustive enumeration of the finite header code spaces",
   text="(a) generated streams are read by the harness' strict RFC 9639 reader, which must report zero rule violations (marker, metadata flags, sync, reserved codes, agreement with STREAMINFO, canonical UTF-8 frame numbers 0,1,2.., CRC-8/CRC-16, padding, subframe limits, partition rules, 32-bit residuals, block sizes, no trailing bytes); (b) the finite header code spaces are enumerated completely through the encoder entry point: every block length 1..=32767 and every sample rate 1..=96000 in both tiers, every frame number 0..2^31-1 in the thorough tier (boundary neighbourhoods plus a 2^20-stratum sample in the quick tier), each parsed back strictly and compared with the requested value.",
   note="Trusts the harness' strict reader (cross-checked with claxon under C01). STREAMINFO block-size bounds are judged under C04."),
 "C03": dict(cat="exploration", ref="DESIGN.md 4/C03", tech="property-based differential testing against an independent MD5/serialisation oracle across source kinds, modes and owned schedules",
   text="Each generated (config, input) is encoded eight ways ({single, multi} x {MemSource, integer fill, byte fill}, frame-level x {integer, byte}); STREAMINFO parsed by the reference reader must state the source's format, the number of samples consumed and the MD5 computed by the harness' own RFC 1321 implementation over its own serialisation; the 42 bytes must be identical across variants. A second part runs multi-thread mode under the schedule-owning scheduler with generated schedules of the hashing thread.",
   note="Source contract assumed: full blocks except the last, one fill call per read. Scheduler explores hook-point interleavings only."),
 "C04": dict(cat="exploration", ref="DESIGN.md 4/C04", tech="property-based testing plus exhaustive enumeration of length residues, oracle from an independent decoder's frame trace",
   text="Complete enumeration of len = k*B + r for B in {32,192}, all r, k in 0..=2, both stream-level entry points; generated (config, input, entry point) cases with tiny final blocks forced; oracle from the reference decoder's trace (max block = requested, 16 <= min block <= every non-final frame, min/max frame size exact) and claxon accepting the stream.",
   note="For frame-level assembly the caller finalises STREAMINFO, so block-size bounds are judged on the stream-level entry points and frame-size bounds on all three."),
 "C05": dict(cat="exploration", ref="DESIGN.md 3.6, 4/C05", tech="property-based differential testing (single vs multi vs frame-level vs repeat) over generated schedules executed by a schedule-owning deterministic scheduler",
   text="Multi-thread encoding runs in executor processes under a cooperative scheduler installed through the cfg(flacenc_verif) hook: the schedule (uniform random walk or PCT priorities, generated choice string) is part of the generated case and replays deterministically; dead-lock is detected exactly (no enabled thread). Oracle: bytes equal single-thread, frame-by-frame assembly and a second schedule; no panic; no thread alive at return; every FLACENC_WORKERS value class terminates.",
   note="Only hook points are scheduling points (par.rs shares state only through the hooked channels/mutexes/joins); interleavings inside crossbeam/std and weak-memory effects are not explored; schedule space is sampled, not exhausted."),
 "C06": dict(cat="fault_enumeration", ref="DESIGN.md 3.6, 4/C06", tech="fault-position enumeration and property-based fault-set generation under a schedule-owning deterministic scheduler, differential against single-thread mode",
   text="Every fault position k in 0..=frames x {read error, out-of-range sample} for 1..=8-frame inputs x workers 1..=4 x 8 schedules (16 frames / 6 workers / 48 schedules in thorough), plus generated fault sets, worker counts and schedules with fault-free controls; oracle under the scheduler: the call returns (exact dead-lock detection), result kind equals single-thread mode on the same faulty source, no thread panicked, no thread alive at return, fault-free runs give every frame exactly once and identical bytes.",
   note="Termination is decided exactly for the generated schedules at hook-point granularity; a watchdog kill is reported as inconclusive, never as a violation."),
 "C07": dict(cat="exploration", ref="DESIGN.md 4/C07", tech="boundary-grid enumeration (all single fields and all pairs) plus property-based random assignments against an independent documented-range predicate; accepted configurations are round-tripped on a probe corpus",
   text="Complete enumeration of every configuration field at its boundary values (min-1, min, max, max+1, 2^8+k, 2^32+k, usize::MAX; NaN, +-inf, -0.0, 1+ulp, -ulp for the window parameter) with all other fields valid, and of all pairs of such values, plus proptest-generated full assignments from a valid and an invalid generator; oracle: a predicate written from the documentation must agree in both directions with into_verified().is_ok(), the error must name an offending field, and every accepted configuration encodes a probe corpus of 30 inputs without panic and losslessly (reference decoder).",
   note="The documented ranges are transcribed by hand from the doc comments of config.rs and constant.rs; the probe corpus is small (50 and 700 samples), deeper input coverage of accepted configurations is C01's."),
 "C08": dict(cat="exploration", ref="DESIGN.md 4/C08", tech="property-based differential testing of count_bits() against three sinks (byte-backed, word-backed, counting) and an independent u128 count for constructed residuals",
   text="For every component of generated streams (stream, STREAMINFO, frames before and after precompute_bitstream, headers, subframes, residuals) and of their parsed counterparts count_bits() must equal the bits written to MemSink<u8>, to MemSink<u64> and to a counting sink, frames must be whole bytes, parents must equal the sum of their children; directly constructed residuals with quotient sums on both sides of 2^32 are compared with an independent u128 count through the counting sink; frame headers are sampled boundary-dense over the 31-bit frame-number and 36-bit start-sample ranges.",
   note="Sinks are judged under C11; giant residuals are only counted, never materialised."),
 "C11": dict(cat="exploration", ref="DESIGN.md 4/C11", tech="model-based property testing: generated operation histories on both in-memory sinks and a minimal user sink against a Vec<bool> bit-string model, plus an exhaustive (offset x type x width x pattern) grid",
   text="Generated histories vec(op, 1..40) over every BitSink operation and operand type are applied step by step to MemSink<u8>, MemSink<u64>, a user sink implementing only the required methods, and an ideal MSB-first bit string; lengths, bits, byte exports and zero tail bits must agree after every step. A complete grid (start offset 0..=63 x operand type x width 0..=bits(T) x three value patterns x msbs/lsbs, followed by a sentinel write) is enumerated in both tiers; components of generated streams are serialised into all three sinks.",
   note="The model is a plain Vec<bool>; only the public BitSink API is exercised."),
 "C12": dict(cat="fault_enumeration", ref="DESIGN.md 4/C12", tech="fault-position enumeration: a user sink failing at every operation index of every component of crafted and proptest-generated streams",
   text="For each of 12 crafted streams (all subframe kinds, mono/stereo, 1..=4 frames, with/without extra metadata, precomputed or not) and for generated streams, and for each component (stream, frames, headers, subframes, residuals, STREAMINFO), the user sink fails on every operation index k in 0..total_ops; oracle: write returns Err(OutputError::Sink), never panics, never Ok, and the bits accepted before the failure are a prefix of the reference bit string.",
   note="The failing sink implements only the required BitSink methods, so the default methods are on the path as well."),
 "C15": dict(cat="exploration", ref="DESIGN.md 4/C15", tech="property-based round-trip testing of parser against writer on generated streams, frames and subframes, cross-checked with the harness' reference reader",
   text="Generated streams (all entry points, optional extra metadata blocks, many-small-frame layouts) must be consumed completely by parser::stream, verify, re-serialise to identical bytes and decode (Decode) to the original samples; every frame and subframe serialised alone must round-trip through parser::frame / parser::subframe with consumed bits = count_bits; orders, precision, shift, coefficients, partition orders and Rice parameters must agree with the reference reader's trace.",
   note="Sampling; the reference reader is cross-checked against claxon under C01."),
 "C16": dict(cat="fault_enumeration", ref="DESIGN.md 4/C16", tech="exhaustive corruption enumeration (all single-bit flips, all 2..8-bit bursts, all truncations) of small emitted streams plus property-based random bytes and CRC-repaired structure-aware mutations, panic and same-audio oracles",
   text="On 8 (thorough: 24 + generated) small emitted streams every single-bit flip and every burst of 2..=8 bits at every bit position and truncation at every byte are parsed: parser::stream must never unwind, and an accepted mutant whose altered bits lie inside one frame must decode to the original audio. Random byte strings and structure-aware frame mutations with CRC-8/CRC-16 recomputed (so the code behind the checksums is reached) are judged by the panic oracle for parsing and for decoding what the parser accepted.",
   note="A CRC-16 collision for a boundary-moving mutation is possible in principle (none observed); decoding of parser-accepted mutants is included because the property's anchors name decode.rs arithmetic on parsed values."),
 "C10": dict(cat="exploration", ref="DESIGN.md 4/C10", tech="model-based property testing over generated call histories: every call on a long-lived thread is compared with the same call made alone on a freshly spawned thread",
   text="Generated histories of 2..=7 (thorough: up to 12) operations {stream encode+write, frame-level encode with per-frame writes to the word-backed sink, precompute_bitstream+write, encode+write+parse+decode+re-serialise, multi-thread encode} with generated valid configurations and inputs run on one long-lived thread; block sizes come from a small per-history pool so that steps shrink and grow buffers as well as change channels, widths, LPC order, Rice limits and window parameters at a fixed size; window parameters come from a pool with near-collisions far below 2^-16. Oracle: the observable bytes of every operation equal those of the same operation executed alone on a fresh thread. A second family probes pairs of calls that differ only in the window parameter.",
   note="Assumes a fresh OS thread has pristine thread-local scratch storage (the library keeps its reusable buffers in thread_local! cells only). Sampling of the history space."),
 "C14": dict(cat="exploration", ref="DESIGN.md 4/C14", tech="property-based differential testing of integer versus packed-byte delivery at stream level and over generated fill histories on one FrameBuf/Context, with a verbatim-dump decode as content oracle",
   text="(a) Generated (config, input) with 1..=8 channels and 1..=3 bytes per sample are encoded from an integer-fill source, a byte-fill source and MemSource in single-thread, multi-thread and frame-level mode; the streams must be byte-identical. (b) Generated fill histories (2..=6 fills, lengths capacity / 1..capacity / 0 / 1 / capacity-d) deliver the same blocks as integers to one FrameBuf and as packed little-endian bytes (native width or 4 bytes per sample) to another; after every fill filled_size, the Context (MD5, sample count, frame number) and the frames encoded from both buffers and from a brand-new buffer must agree, and a verbatim-only frame must decode (reference decoder) to exactly the delivered block.",
   note="Source contract assumed: full blocks except the last, one fill call per read; byte fills into a Context use the Context's own byte width (mismatches are property C17)."),
 "C17": dict(cat="exploration", ref="DESIGN.md 4/C17", tech="complete boundary/wrap-around argument grids for every public entry point plus property-based generated positions and amounts, with an Err-or-faithful oracle (reference decoder, MD5) and a required-Err oracle for arguments without a faithful reading",
   text="Complete grids {0, min-1, min, max, max+1, 2^8+k, 2^16+k, 2^32+k, usize::MAX}: the full product rate x channels x bits for StreamInfo::new / Stream::new, the full product channels x size for FrameBuf::with_size, fills of FrameBuf / Context / their pair with capacity+extra samples as integers and bytes and byte widths 0..=5, 8, 9, 255, 2^32+2, usize::MAX, encode_with_fixed_block_size in single- and multi-thread mode from a source declaring grid values (one argument at a time; pairs in the thorough tier) with grid block sizes, over-long reads, wrong byte widths and samples outside the width, and encode_fixed_size_frame over a frame-number grid and with out-of-width samples; plus proptest-generated widths, positions and over-fill amounts. Oracle: Err, or a result that states exactly the given values (accessors, serialised STREAMINFO, decoded audio, MD5, frame number); never a panic, hang or reinterpreted value; Err is required for over-fills, disagreeing byte widths, samples outside the width, frame numbers >= 2^31 and block sizes outside 32..=32767.",
   note="Widths 4n / 4n+1 in 4..=25 other than 8/12/16/20/24 are accepted by the library's own verification (side-channel allowance); for those the faithful branch applies. A multi-thread call that does not return within 60 s is inconclusive, not a violation. Ragged fills (length not a multiple of the channel count or byte width) are not part of the property and are not generated."),
 "C18": dict(cat="exploration", ref="DESIGN.md 4/C18", tech="complete grids of boundary and inconsistent constructor arguments plus property-based generated (mostly consistent, perturbed) arguments; oracle = no panic, and Ok implies verify / write / count_bits / parse-back-identical through the matching parser",
   text="Every public component constructor (Residual, QuantizedParameters, Constant, Verbatim, FixedLpc, Lpc, FrameHeader, Frame, StreamInfo, Stream, MetadataBlockData::new_unknown) is called over complete grids of boundary and inconsistent arguments (about 110k points: disagreeing lengths, orders above the block size, parameters 0..255, precision 0..usize::MAX, widths with 2^8/2^32 wrap-arounds, block size 0, offsets around every UTF-8 length boundary and 2^36, subframes disagreeing with the header, tags 0..255 and payloads around 2^24 bytes) and over proptest-generated arguments that are mostly consistent and perturbed in one place. All grid points are evaluated and failures are grouped by signature. Oracle: the constructor and verify() never panic; Ok(c) implies verify() is Ok, write() succeeds without panic, the bits written equal count_bits(), and the matching parser consumes exactly those bits and returns a component with an identical field-by-field (serde) representation and identical re-serialisation.",
   note="Err is always acceptable (the property does not say which arguments are valid). QuantizedParameters has no serialisation of its own and is judged embedded in Lpc::new. The Result-less setters of StreamInfo are only used inside their serialisable ranges. Components above 2^24 bits are counted through a counting sink, not parsed back. The placeholder fields of a fresh StreamInfo are a recorded known finding (KNOWN_FINDINGS.txt)."),
}

NOT_YET = {}

def main():
    props = [json.loads(l)["id"] for l in open("/verif/properties.jsonl")]
    checks = []
    for pid in props:
        if pid not in CHECKS:
            continue
        c = CHECKS[pid]
        checks.append({
            "property_id": pid,
            "quick_cmd": f"./check {pid} --tier quick",
            "thorough_cmd": f"./check {pid} --tier thorough",
            "evidence_file": f"/verif/evidence/{pid}.json",
            "replay_cmd_template": f"./check {pid} --replay {{path}}",
            "engine": "vh",
            "level_claimed": {"category": c["cat"], "text": c["text"], "design_ref": c["ref"]},
            "level_note": c["note"],
            "technique": c["tech"],
        })
    na = [{"property_id": p, "reason": NOT_YET.get(p, "check under construction in this session (see DESIGN.md section 4 for the planned generated-search check); not claimed until it has been validated")} for p in props if p not in CHECKS]
    hooks_commits = subprocess.run(["git", "-C", "/repo", "log", "--format=%h %s", "--grep=flacenc_verif"], capture_output=True, text=True).stdout.strip().splitlines()
    m = {
        "version": 1,
        "setup_cmd": "cd /verif/harness && CARGO_NET_OFFLINE=true cargo build --release",
        "hooks": {
            "guard": "--cfg flacenc_verif (rustc cfg flag; declared to cargo in /repo/build.rs)",
            "enable": "harness/.cargo/config.toml sets build.rustflags = [\"--cfg\", \"flacenc_verif\"]; the harness path-depends on /repo so every check rebuilds from the working tree",
            "baseline_off_cmd": "cd /repo && cargo test --workspace --no-fail-fast --offline",
            "source_commits": [c.split()[0] for c in hooks_commits],
            "add_only": True,
        },
        "engines": [
            {"name": "vh", "path": "/verif/harness", "serves_properties": [c["property_id"] for c in checks],
             "kind_free_text": "Rust binary: proptest strategies + exhaustive enumerators + oracles (reference FLAC decoder, MD5, brute-force Rice, bit-string model) + deterministic scheduler for par mode; front end ./check"},
        ],
        "checks": checks,
        "not_applicable": na,
        "notes": "Exit codes of every command: 0 held, 1 VIOLATION line, 2 inconclusive (never a violation). KNOWN_FINDINGS.txt lists recorded/fixed defects.",
    }
    json.dump(m, open("/verif/MANIFEST.json", "w"), indent=1)
    print(f"{len(checks)} checks, {len(na)} not claimed")

main()
