//! Feature-set probe for check C20. Reads one case per line on stdin, answers one line per case:
//!   `ok <fnv64 of the emitted bytes> <length> <frames>` | `err <message>` | `panic <message>`
//! Line format (whitespace separated integers):
//!   block multithread workers ls rs ms use_constant use_fixed use_lpc fixed_max_order order_sel(-1=BitCount)
//!   lpc_order quant_precision window(-1=Rectangle, else f32 bits) max_parameter
//!   entry(0 stream, 2 frame-level) channels bps rate nsamples cfg_block(0 = same as block) s0 s1 ...
//! `block` is the block-size ARGUMENT of the entry points; `cfg_block` (when non-zero) is what
//! `config.block_size` holds instead.
//! The code below must not depend on any optional feature of flacenc.

use flacenc::bitsink::ByteSink;
use flacenc::component::{BitRepr, Stream};
use flacenc::config;
use flacenc::error::Verify;
use flacenc::source::{Context, FrameBuf, MemSource, Source};
use std::io::{BufRead, Write};

fn fnv(data: &[u8]) -> u64 {
    let mut h = 0xcbf2_9ce4_8422_2325u64;
    for b in data {
        h ^= *b as u64;
        h = h.wrapping_mul(0x0000_0100_0000_01B3);
    }
    h
}

fn run(v: &[i64]) -> Result<String, String> {
    if v.len() < 21 {
        return Err("short line".into());
    }
    let mut c = config::Encoder::default();
    c.block_size = v[0] as usize;
    c.multithread = v[1] != 0;
    c.workers = std::num::NonZeroUsize::new(v[2] as usize);
    c.stereo_coding.use_leftside = v[3] != 0;
    c.stereo_coding.use_rightside = v[4] != 0;
    c.stereo_coding.use_midside = v[5] != 0;
    c.subframe_coding.use_constant = v[6] != 0;
    c.subframe_coding.use_fixed = v[7] != 0;
    c.subframe_coding.use_lpc = v[8] != 0;
    c.subframe_coding.fixed.max_order = v[9] as usize;
    c.subframe_coding.fixed.order_sel = if v[10] < 0 { config::OrderSel::BitCount } else { config::OrderSel::ApproxEnt { partitions: v[10] as usize } };
    c.subframe_coding.qlpc.lpc_order = v[11] as usize;
    c.subframe_coding.qlpc.quant_precision = v[12] as usize;
    c.subframe_coding.qlpc.use_direct_mse = false;
    c.subframe_coding.qlpc.mae_optimization_steps = 0;
    c.subframe_coding.qlpc.window = if v[13] < 0 { config::Window::Rectangle } else { config::Window::Tukey { alpha: f32::from_bits(v[13] as u32) } };
    c.subframe_coding.prc.max_parameter = v[14] as usize;
    let (entry, channels, bps, rate, n) = (v[15], v[16] as usize, v[17] as usize, v[18] as usize, v[19] as usize);
    if v.len() != 21 + n {
        return Err(format!("expected {n} samples, got {}", v.len() - 21));
    }
    let samples: Vec<i32> = v[21..].iter().map(|x| *x as i32).collect();
    let block = c.block_size;
    if v[20] != 0 {
        c.block_size = v[20] as usize;
    }
    let cfg = c.into_verified().map_err(|(_, e)| format!("config rejected: {e}"))?;
    let stream: Stream = if entry == 0 {
        flacenc::encode_with_fixed_block_size(&cfg, MemSource::from_samples(&samples, channels, bps, rate), block).map_err(|e| format!("{e:?}"))?
    } else {
        let mut src = MemSource::from_samples(&samples, channels, bps, rate);
        let mut stream = Stream::new(rate, channels, bps).map_err(|e| format!("{e:?}"))?;
        let mut fb = FrameBuf::with_size(channels, block).map_err(|e| format!("{e:?}"))?;
        let mut ctx = Context::new(bps, channels);
        stream.stream_info_mut().set_block_sizes(block, block).map_err(|e| format!("{e:?}"))?;
        loop {
            let got = src.read_samples(block, &mut (&mut fb, &mut ctx)).map_err(|e| format!("{e:?}"))?;
            if got == 0 {
                break;
            }
            let frame = flacenc::encode_fixed_size_frame(&cfg, &fb, ctx.current_frame_number().unwrap(), stream.stream_info()).map_err(|e| format!("{e:?}"))?;
            stream.add_frame(frame);
        }
        stream.stream_info_mut().set_md5_digest(&ctx.md5_digest());
        stream.stream_info_mut().set_total_samples(ctx.total_samples());
        stream.stream_info_mut().set_block_sizes(block, block).map_err(|e| format!("{e:?}"))?;
        stream
    };
    let bits = stream.count_bits();
    if bits > samples.len() * (bps + 8) + (8 << 20) {
        return Ok(format!("oversized {bits}"));
    }
    let mut sink = ByteSink::with_capacity(bits);
    stream.write(&mut sink).map_err(|e| format!("write: {e:?}"))?;
    let bytes = sink.into_inner();
    Ok(format!("ok {:016x} {} {}", fnv(&bytes), bytes.len(), stream.frame_count()))
}

fn main() {
    std::panic::set_hook(Box::new(|_| {}));
    let stdin = std::io::stdin();
    let stdout = std::io::stdout();
    if std::env::args().any(|a| a == "--features") {
        println!("{}", flacenc::constant::build_info::FEATURES);
        return;
    }
    for line in stdin.lock().lines() {
        let Ok(line) = line else { break };
        let v: Vec<i64> = line.split_whitespace().filter_map(|t| t.parse().ok()).collect();
        let ans = match std::panic::catch_unwind(|| run(&v)) {
            Ok(Ok(s)) => s,
            Ok(Err(e)) => format!("err {}", e.replace('\n', " ")),
            Err(p) => {
                let m = p.downcast_ref::<&str>().map(|s| s.to_string()).or_else(|| p.downcast_ref::<String>().cloned()).unwrap_or_default();
                format!("panic {}", m.replace('\n', " "))
            }
        };
        let mut o = stdout.lock();
        let _ = writeln!(o, "{ans}");
        let _ = o.flush();
    }
}
